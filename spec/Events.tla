---- MODULE Events ----
\* X01 - implementation-shaped model of modules/events.go together with the parts of the module
\* lifecycle it reads (status, stop flag, enabled flag, module context, start-complete channel,
\* worker counter).  One action per critical section / atomic read of the Go code:
\*
\*   TriggerEvent        TrigEmit (driver writes the observation), TrigCall (OnlineSoon check, `go process`)
\*   processEventTrigger ProcStart (RLock, look up the event, snapshot of the hook list), ProcStep (one
\*                       OnlineSoon check of a hooking module + `go runEventHook`), subscription worker
\*   InjectEvent         InjEmit, InjCall (checks + the loop over the hooks in the caller's goroutine)
\*   runEventHook        HWait (Status() check; else enter the select with the channels read at that
\*                       moment), HWake (one ready case of the select), HRun (RunWorker: counter++, fn
\*                       entered), HFin (fn returned, counter--)
\*   Module.start        MStart (status, cancel of the previous context, new context, stop flag reset: one
\*                       critical section under the module lock), SfBegin/SfEnd (start routine), MOnline
\*   Module.stop         MStop (status, new start-complete channel), MFlag, MCancel, MOffline (counter = 0)
\*   buildEnabledTree    TreeReset / RelTree (module management: the "enabled as dependency" flags read by
\*                       OnlineSoon are recomputed by Start and ManageModules; the script releases the second half)
\*
\* Every observable step feeds the property monitor EventsAbs (variable ab); TLC checks over all
\* interleavings that the monitor never rejects (invariant NoReject) - i.e. that the statement at the top
\* of EventsAbs.tla holds for this design, and that the monitor raises no false alarm against it.
\* Fault variants (the code as pinned): Buggy = TRUE is the hook wait that leaves the select for good when a
\* context is cancelled - also by Module.start; TreeBuggy = TRUE is buildEnabledTree clearing every dependency
\* flag before marking the needed ones again.  TLC rejects both; the counterexamples are replayed as directed
\* scripts.  The same module generates the scripts (sequence of driver steps) for harness/cmd/events.
EXTENDS EventsAbs, Json

CONSTANTS Mods,      \* sequence of module names
          Mgmt,      \* module management enabled
          Subscribed,
          Dep,       \* function: module -> set of modules it depends on
          EvCand,    \* set of <<module, event>> that may be registered
          TrigCand,  \* set of <<module, event>> that may be triggered (may contain unregistered ones)
          InjCand,   \* set of <<module, event>> that may be the target of InjectEvent (may contain unknown modules)
          HookCand,  \* set of <<hooking module, <<module, event>> >>
          PreReg,    \* sequence of <<hooking module, <<module, event>> >>: events and hooks registered before the first step
          PreHold,   \* those hooks block until the script releases them
          MaxTrig, MaxHooks, MaxCalls, MaxG, MaxSteps,
          Buggy,     \* the hook wait as written in the pinned code
          TreeBuggy, \* buildEnabledTree as written in the pinned code (all dependency flags cleared, then marked again)
          Emit

MS == ToSet(Mods)
SeqOf(S) == IF S = {} THEN <<>> ELSE CHOOSE q \in [1..Cardinality(S) -> S] : \A x \in S : \E i \in 1..Cardinality(S) : q[i] = x

VARIABLES status, flag, en, ctx, cancelled, sc, scClosed, wcnt,   \* module state
          mst, mgr, ncalls, sysStarted, shut,                      \* lifecycle manager
          evReg, hookReg, ntrig, envpc,                            \* registrations, driver
          g,                                                       \* goroutines
          ab, rej, hist, done
vars == <<status, flag, en, ctx, cancelled, sc, scClosed, wcnt, mst, mgr, ncalls, sysStarted, shut,
          evReg, hookReg, ntrig, envpc, g, ab, rej, hist, done>>
modv == <<status, flag, ctx, cancelled, sc, scClosed, wcnt>>

Tid(n) == <<"t", n>>
Kid(n) == <<"k", n>>

NoG == [kind |-> "none", t |-> Tid(0), k |-> Kid(0), src |-> Mods[1], h |-> Mods[1], key |-> <<Mods[1], "-">>, pc |-> "done", i |-> 0, n |-> 0,
        stage |-> 0, wsc |-> 0, wc1 |-> 0, wc2 |-> 0, data |-> 0]

\* registrations made before the first step (exhaustive runs: saves two levels of branching)
RECURSIVE PreAb(_, _)
PreAb(a, n) == IF n > Len(PreReg) THEN a
               ELSE LET c == PreReg[n]
                        a1 == CHOOSE x \in Apply(a, [e |-> "regev", m |-> c[2][1], ev |-> c[2][2], expose |-> TRUE]) : TRUE
                        a2 == CHOOSE x \in Apply(a1, [e |-> "reghook", k |-> <<"k", n>>, hm |-> c[1], m |-> c[2][1], ev |-> c[2][2], ok |-> TRUE]) : TRUE
                    IN PreAb(a2, n + 1)
RECURSIVE PreHist(_)
PreHist(n) == IF n = 0 THEN <<>>
              ELSE PreHist(n - 1) \o << [op |-> "regev", m |-> PreReg[n][2][1], ev |-> PreReg[n][2][2], expose |-> TRUE, k |-> 0, hm |-> "-", hold |-> FALSE, out |-> "ok", eager |-> FALSE],
                                        [op |-> "reghook", m |-> PreReg[n][2][1], ev |-> PreReg[n][2][2], expose |-> FALSE, k |-> n, hm |-> PreReg[n][1], hold |-> PreHold, out |-> "ok", eager |-> FALSE] >>

Init == /\ status = [m \in MS |-> "offline"] /\ flag = [m \in MS |-> FALSE] /\ en = [e |-> [m \in MS |-> FALSE], d |-> [m \in MS |-> FALSE]]
        /\ ctx = [m \in MS |-> 0] /\ cancelled = [m \in MS |-> {}] /\ sc = [m \in MS |-> 0] /\ scClosed = [m \in MS |-> {}]
        /\ wcnt = [m \in MS |-> 0]
        /\ mst = [m \in MS |-> "idle"] /\ mgr = "none" /\ ncalls = 0 /\ sysStarted = FALSE /\ shut = FALSE
        /\ evReg = {[key |-> PreReg[n][2], internal |-> FALSE] : n \in 1..Len(PreReg)}
        /\ hookReg = [n \in 1..Len(PreReg) |-> [h |-> PreReg[n][1], key |-> PreReg[n][2], hold |-> PreHold, id |-> n]]
        /\ ntrig = 0 /\ envpc = <<"idle">>
        /\ g = <<>>
        /\ ab = PreAb(CHOOSE x \in AInit(Mgmt, Mods, [i \in 1..Len(Mods) |-> SeqOf(Dep[Mods[i]])], Subscribed) : TRUE, 1)
        /\ rej = FALSE /\ hist = PreHist(Len(PreReg)) /\ done = FALSE

Pick(S) == IF Emit THEN (IF S = {} THEN {} ELSE {RandomElement(S)}) ELSE S
\* script generation only: thin out an action / draw a flag (no effect on exhaustive runs)
Often(n) == Emit => RandomElement(1..n) > 1
Seldom(n) == Emit => RandomElement(1..n) = 1
Flag == IF Emit THEN {RandomElement(BOOLEAN)} ELSE {FALSE}

\* feed the monitor
Obs(ev) == LET S == Apply(ab, ev) IN
           IF S = {} THEN ab' = ab /\ rej' = TRUE
           ELSE ab' = (CHOOSE x \in S : TRUE) /\ rej' = rej
NoObs == UNCHANGED <<ab, rej>>
St(op, m, ev, expose, k, hm, hold, out, eager) == [op |-> op, m |-> m, ev |-> ev, expose |-> expose, k |-> k, hm |-> hm, hold |-> hold, out |-> out, eager |-> eager]
Step(s) == hist' = Append(hist, s)
Busy == envpc # <<"idle">>
Room == Len(hist) < MaxSteps /\ ~Busy /\ ~done /\ ~rej

OSoon(m) == (Mgmt => (en.e[m] \/ en.d[m])) /\ ~flag[m]

\* ------------------------------------------------------------------ registrations (driver steps)
RegEv == /\ Room /\ (evReg # {} => Seldom(4))
         /\ \E key \in Pick(EvCand) : \E expose \in (IF Subscribed THEN Pick(BOOLEAN) ELSE {TRUE}) :
               /\ evReg' = IF \E e \in evReg : e.key = key THEN evReg ELSE evReg \cup {[key |-> key, internal |-> ~expose]}
               /\ Obs([e |-> "regev", m |-> key[1], ev |-> key[2], expose |-> expose])
               /\ Step(St("regev", key[1], key[2], expose, 0, "-", FALSE, "ok", FALSE))
         /\ UNCHANGED <<modv, en, mst, mgr, ncalls, sysStarted, shut, hookReg, ntrig, envpc, g, done>>

Known(key) == \E e \in evReg : e.key = key
KnownCand == {c \in HookCand : Known(c[2])}
RegHookA == /\ Room /\ Len(hookReg) < MaxHooks
            /\ (evReg = {} => Seldom(6))
            /\ \E c \in Pick(IF Emit /\ KnownCand # {} /\ RandomElement(1..5) > 1 THEN KnownCand ELSE HookCand) : \E hold \in Pick(BOOLEAN) : \E out \in (IF Emit THEN Pick({"ok", "err", "panic"}) ELSE {"ok"}) :
                  LET k == Len(hookReg) + 1
                      ok == Known(c[2]) IN
                  /\ hookReg' = IF ok THEN Append(hookReg, [h |-> c[1], key |-> c[2], hold |-> hold, id |-> k])
                                ELSE Append(hookReg, [h |-> c[1], key |-> <<"-", "-">>, hold |-> FALSE, id |-> k])
                  /\ Obs([e |-> "reghook", k |-> Kid(k), hm |-> c[1], m |-> c[2][1], ev |-> c[2][2], ok |-> ok])
                  /\ Step(St("reghook", c[2][1], c[2][2], FALSE, k, c[1], hold, out, FALSE))
            /\ UNCHANGED <<modv, en, mst, mgr, ncalls, sysStarted, shut, evReg, ntrig, envpc, g, done>>

\* ------------------------------------------------------------------ TriggerEvent
TrigEmit == /\ Room /\ ntrig < MaxTrig
            /\ \E key \in Pick(TrigCand) : \E eager \in Flag :
                  /\ ntrig' = ntrig + 1
                  /\ envpc' = <<"trig", ntrig + 1, key>>
                  /\ Obs([e |-> "trig", t |-> Tid(ntrig + 1), m |-> key[1], ev |-> key[2], data |-> ntrig + 1])
                  /\ Step(St("trig", key[1], key[2], FALSE, 0, "-", FALSE, "ok", eager))
            /\ UNCHANGED <<modv, en, mst, mgr, ncalls, sysStarted, shut, evReg, hookReg, g, done>>

Spawn(gs, r) == Append(gs, r)

TrigCall == /\ envpc[1] = "trig"
            /\ LET t == envpc[2]  key == envpc[3] IN
               /\ g' = IF OSoon(key[1]) /\ Len(g) < MaxG
                       THEN Spawn(g, [NoG EXCEPT !.kind = "proc", !.t = Tid(t), !.src = key[1], !.key = key, !.pc = "p0", !.data = t])
                       ELSE g
               /\ (OSoon(key[1]) => Len(g) < MaxG)
               /\ Obs([e |-> "trigret", t |-> Tid(t), blocked |-> FALSE])
            /\ envpc' = <<"idle">>
            /\ UNCHANGED <<modv, en, mst, mgr, ncalls, sysStarted, shut, evReg, hookReg, ntrig, hist, done>>

\* processEventTrigger under the read lock: event lookup and snapshot of the hook list
HooksFor(key) == SelectSeq(hookReg, LAMBDA r : r.key = key)
ProcStart(i) == /\ g[i].kind = "proc" /\ g[i].pc = "p0"
                /\ IF Known(g[i].key)
                   THEN g' = [g EXCEPT ![i].pc = "loop", ![i].i = 1, ![i].n = Len(HooksFor(g[i].key))]
                   ELSE g' = [g EXCEPT ![i].pc = "done"]
                /\ NoObs
                /\ UNCHANGED <<modv, en, mst, mgr, ncalls, sysStarted, shut, evReg, hookReg, ntrig, envpc, hist, done>>

SubG(p) == [NoG EXCEPT !.kind = "sub", !.t = p.t, !.key = p.key, !.pc = "run", !.data = p.data]
ProcStep(i) == /\ g[i].kind = "proc" /\ g[i].pc = "loop"
               /\ LET p == g[i]  hs == HooksFor(p.key) IN
                  IF p.i <= p.n
                  THEN LET r == hs[p.i] IN
                       /\ (OSoon(r.h) => Len(g) < MaxG)
                       /\ g' = IF OSoon(r.h)
                               THEN Spawn([g EXCEPT ![i].i = p.i + 1],
                                          [NoG EXCEPT !.kind = "hook", !.t = p.t, !.k = Kid(r.id), !.src = p.src, !.h = r.h, !.key = p.key,
                                                      !.pc = "wait", !.stage = 1, !.data = p.data, !.i = r.id])
                               ELSE [g EXCEPT ![i].i = p.i + 1]
                  ELSE /\ (Subscribed => Len(g) < MaxG)
                       /\ g' = IF Subscribed THEN Spawn([g EXCEPT ![i].pc = "done"], SubG(p)) ELSE [g EXCEPT ![i].pc = "done"]
               /\ NoObs
               /\ UNCHANGED <<modv, en, mst, mgr, ncalls, sysStarted, shut, evReg, hookReg, ntrig, envpc, hist, done>>

SubRun(i) == /\ g[i].kind = "sub" /\ g[i].pc = "run"
             /\ g' = [g EXCEPT ![i].pc = "done"]
             /\ Obs([e |-> "sub", t |-> g[i].t, m |-> g[i].key[1], ev |-> g[i].key[2],
                     internal |-> (CHOOSE e \in evReg : e.key = g[i].key).internal, data |-> g[i].data])
             /\ UNCHANGED <<modv, en, mst, mgr, ncalls, sysStarted, shut, evReg, hookReg, ntrig, envpc, hist, done>>

\* ------------------------------------------------------------------ InjectEvent (from module j)
InjEmit == /\ Room /\ ntrig < MaxTrig
           /\ InjCand # {} /\ Seldom(3)
           /\ \E j \in Pick(MS) : \E key \in Pick(InjCand) :
                 /\ ntrig' = ntrig + 1
                 /\ envpc' = <<"inj", ntrig + 1, key, j>>
                 /\ Obs([e |-> "inject", t |-> Tid(ntrig + 1), j |-> j, m |-> key[1], ev |-> key[2], data |-> ntrig + 1])
                 /\ Step(St("inject", key[1], key[2], FALSE, 0, j, FALSE, "ok", FALSE))
           /\ UNCHANGED <<modv, en, mst, mgr, ncalls, sysStarted, shut, evReg, hookReg, g, done>>

RECURSIVE InjSpawn(_, _, _, _, _)
InjSpawn(gs, hs, n, j, t) == IF n > Len(hs) THEN gs
                             ELSE InjSpawn(IF OSoon(hs[n].h)
                                           THEN Append(gs, [NoG EXCEPT !.kind = "hook", !.t = Tid(t), !.k = Kid(hs[n].id), !.src = j, !.h = hs[n].h,
                                                                       !.pc = "wait", !.stage = 1, !.data = t, !.i = hs[n].id])
                                           ELSE gs, hs, n + 1, j, t)
InjCall == /\ envpc[1] = "inj"
           /\ LET t == envpc[2]  key == envpc[3]  j == envpc[4]
                  ok == OSoon(j) /\ sysStarted /\ Known(key)
                  g1 == InjSpawn(g, HooksFor(key), 1, j, t)
                  g2 == IF Subscribed THEN Append(g1, [NoG EXCEPT !.kind = "sub", !.t = Tid(t), !.key = key, !.pc = "run", !.data = t]) ELSE g1 IN
              /\ g' = IF ok THEN g2 ELSE g
              /\ (ok => Len(g2) <= MaxG)
              /\ Obs([e |-> "injret", t |-> Tid(t), ok |-> ok, blocked |-> FALSE])
           /\ envpc' = <<"idle">>
           /\ UNCHANGED <<modv, en, mst, mgr, ncalls, sysStarted, shut, evReg, hookReg, ntrig, hist, done>>

\* ------------------------------------------------------------------ runEventHook
\* stage 1 waits for the source module, stage 2 for the hooking module
WMod(r) == IF r.stage = 1 THEN r.src ELSE r.h
WOther(r) == IF r.stage = 1 THEN r.h ELSE r.src
Advance(r) == IF r.stage = 1 THEN [r EXCEPT !.stage = 2, !.pc = "wait"] ELSE [r EXCEPT !.pc = "run"]

HWait(i) == /\ g[i].kind = "hook" /\ g[i].pc = "wait"
            /\ LET r == g[i]  m == WMod(r)  o == WOther(r) IN
               g' = IF status[m] = "online" THEN [g EXCEPT ![i] = Advance(r)]
                    ELSE [g EXCEPT ![i].pc = "select", ![i].wsc = sc[m], ![i].wc1 = ctx[m], ![i].wc2 = ctx[o]]
            /\ NoObs
            /\ UNCHANGED <<modv, en, mst, mgr, ncalls, sysStarted, shut, evReg, hookReg, ntrig, envpc, hist, done>>

HWake(i) == /\ g[i].kind = "hook" /\ g[i].pc = "select"
            /\ LET r == g[i]  m == WMod(r)  o == WOther(r) IN
               \/ /\ r.wsc \in scClosed[m]
                  /\ g' = IF Buggy THEN [g EXCEPT ![i] = Advance(r)] ELSE [g EXCEPT ![i].pc = "wait"]
               \/ /\ r.wc1 \in cancelled[m]
                  /\ g' = IF Buggy \/ flag[m] THEN [g EXCEPT ![i].pc = "exit"] ELSE [g EXCEPT ![i].pc = "wait"]
               \/ /\ r.wc2 \in cancelled[o]
                  /\ g' = IF Buggy \/ flag[o] THEN [g EXCEPT ![i].pc = "exit"] ELSE [g EXCEPT ![i].pc = "wait"]
            /\ NoObs
            /\ UNCHANGED <<modv, en, mst, mgr, ncalls, sysStarted, shut, evReg, hookReg, ntrig, envpc, hist, done>>

HRun(i) == /\ g[i].kind = "hook" /\ g[i].pc = "run"
           /\ wcnt' = [wcnt EXCEPT ![g[i].h] = @ + 1]
           /\ g' = [g EXCEPT ![i].pc = IF hookReg[g[i].i].hold THEN "held" ELSE "body"]
           /\ Obs([e |-> "hbegin", t |-> g[i].t, k |-> g[i].k, data |-> g[i].data, ctxdone |-> ctx[g[i].h] \in cancelled[g[i].h]])
           /\ UNCHANGED <<status, flag, ctx, cancelled, sc, scClosed, en, mst, mgr, ncalls, sysStarted, shut, evReg, hookReg, ntrig, envpc, hist, done>>

HFin(i) == /\ g[i].kind = "hook" /\ g[i].pc = "body"
           /\ wcnt' = [wcnt EXCEPT ![g[i].h] = @ - 1]
           /\ g' = [g EXCEPT ![i].pc = "done"]
           /\ Obs([e |-> "hend", t |-> g[i].t, k |-> g[i].k])
           /\ UNCHANGED <<status, flag, ctx, cancelled, sc, scClosed, en, mst, mgr, ncalls, sysStarted, shut, evReg, hookReg, ntrig, envpc, hist, done>>

\* driver: release the parked executions of hook k and let later ones pass
RelHook == /\ Room
           /\ \E k \in 1..Len(hookReg) :
                 /\ hookReg[k].hold
                 /\ ((\E i \in 1..Len(g) : g[i].kind = "hook" /\ g[i].pc = "held" /\ g[i].i = k) \/ ~Emit)
                 /\ hookReg' = [hookReg EXCEPT ![k].hold = FALSE]
                 /\ g' = [i \in 1..Len(g) |-> IF g[i].kind = "hook" /\ g[i].pc = "held" /\ g[i].i = k THEN [g[i] EXCEPT !.pc = "body"] ELSE g[i]]
                 /\ Step(St("relhook", "-", "-", FALSE, k, "-", FALSE, "ok", FALSE))
           /\ NoObs
           /\ UNCHANGED <<modv, en, mst, mgr, ncalls, sysStarted, shut, evReg, ntrig, envpc, done>>

\* ------------------------------------------------------------------ lifecycle
Wanted(m) == ~Mgmt \/ en.e[m] \/ en.d[m]
SetEn == /\ Room /\ Mgmt /\ mgr = "none" /\ ~shut
         /\ \E m \in Pick(MS) :
               /\ en' = [en EXCEPT !.e[m] = ~en.e[m]]
               /\ Obs([e |-> IF en.e[m] THEN "disable" ELSE "enable", m |-> m])
               /\ \E eager \in Flag : Step(St(IF en.e[m] THEN "disable" ELSE "enable", m, "-", FALSE, 0, "-", FALSE, "ok", eager))
         /\ UNCHANGED <<modv, mst, mgr, ncalls, sysStarted, shut, evReg, hookReg, ntrig, envpc, g, done>>

CallA == /\ Room /\ mgr = "none" /\ ~shut /\ ncalls < MaxCalls /\ (sysStarted => Seldom(4))
         /\ \E kind \in Pick(IF ~sysStarted THEN {"start"} ELSE IF Mgmt THEN {"manage", "manage", "shutdown"} ELSE {"shutdown"}) :
               /\ mgr' = IF kind = "shutdown" \/ ~Mgmt THEN (IF kind = "start" THEN "startpass" ELSE "stoppass")
                         ELSE IF kind = "start" THEN "tree_s" ELSE "tree_m"
               /\ sysStarted' = TRUE
               /\ shut' = (kind = "shutdown")
               /\ envpc' = <<"idle">>
               /\ Obs([e |-> "call", kind |-> kind])
               /\ \E eager \in Flag : Step(St(kind, "-", "-", FALSE, 0, "-", FALSE, "ok", eager))
         /\ ncalls' = ncalls + 1
         /\ UNCHANGED <<modv, en, mst, evReg, hookReg, ntrig, g, done>>

\* buildEnabledTree (Start and ManageModules): the flags "enabled as dependency" are recomputed from the enabled
\* flags.  The code as pinned clears all of them first and marks the needed ones afterwards (TreeBuggy); the
\* goroutine is held between the two halves until the script releases it (yield point mgmt.treereset).
RECURSIVE Clo(_)
Clo(S) == LET T == S \cup UNION {Dep[m] : m \in S} IN IF T = S THEN S ELSE Clo(T)
Needed == Clo(UNION {Dep[m] : m \in {x \in MS : en.e[x]}})
TreeReset == /\ mgr \in {"tree_s", "tree_m"}
             /\ mgr' = IF mgr = "tree_s" THEN "held_s" ELSE "held_m"
             /\ en' = IF TreeBuggy THEN [en EXCEPT !.d = [m \in MS |-> FALSE]] ELSE en
             /\ NoObs
             /\ UNCHANGED <<modv, mst, ncalls, sysStarted, shut, evReg, hookReg, ntrig, envpc, g, hist, done>>
RelTree == /\ Room /\ mgr \in {"held_s", "held_m"}
           /\ mgr' = IF mgr = "held_s" THEN "startpass" ELSE "stoppass"
           /\ en' = [en EXCEPT !.d = [m \in MS |-> m \in Needed]]
           /\ NoObs
           /\ \E eager \in Flag : Step(St("reltree", "-", "-", FALSE, 0, "-", FALSE, "ok", eager))
           /\ UNCHANGED <<modv, mst, ncalls, sysStarted, shut, evReg, hookReg, ntrig, envpc, g, done>>

WantStop(m) == status[m] = "online" /\ (shut \/ ~Wanted(m)) /\ \A r \in MS : (m \in Dep[r]) => status[r] = "offline"
WantStart(m) == status[m] = "offline" /\ Wanted(m) /\ ~shut /\ \A d \in Dep[m] : status[d] = "online"

MStop(m) == /\ mgr = "stoppass" /\ mst[m] = "idle" /\ WantStop(m)
            /\ status' = [status EXCEPT ![m] = "stopping"]
            /\ sc' = [sc EXCEPT ![m] = @ + 1]
            /\ mst' = [mst EXCEPT ![m] = "s1"]
            /\ NoObs
            /\ UNCHANGED <<flag, ctx, cancelled, scClosed, wcnt, en, mgr, ncalls, sysStarted, shut, evReg, hookReg, ntrig, envpc, g, hist, done>>
MFlag(m) == /\ mst[m] = "s1" /\ flag' = [flag EXCEPT ![m] = TRUE] /\ mst' = [mst EXCEPT ![m] = "s2"]
            /\ NoObs
            /\ UNCHANGED <<status, ctx, cancelled, sc, scClosed, wcnt, en, mgr, ncalls, sysStarted, shut, evReg, hookReg, ntrig, envpc, g, hist, done>>
MCancel(m) == /\ mst[m] = "s2" /\ cancelled' = [cancelled EXCEPT ![m] = @ \cup {ctx[m]}] /\ mst' = [mst EXCEPT ![m] = "s3"]
              /\ NoObs
              /\ UNCHANGED <<status, flag, ctx, sc, scClosed, wcnt, en, mgr, ncalls, sysStarted, shut, evReg, hookReg, ntrig, envpc, g, hist, done>>
MOffline(m) == /\ mst[m] = "s3" /\ wcnt[m] = 0
               /\ status' = [status EXCEPT ![m] = "offline"] /\ mst' = [mst EXCEPT ![m] = "idle"]
               /\ NoObs
               /\ UNCHANGED <<flag, ctx, cancelled, sc, scClosed, wcnt, en, mgr, ncalls, sysStarted, shut, evReg, hookReg, ntrig, envpc, g, hist, done>>

StopPassDone == /\ mgr = "stoppass" /\ \A m \in MS : mst[m] = "idle" /\ ~WantStop(m)
                /\ \A m \in MS : ~(status[m] = "online" /\ (shut \/ ~Wanted(m)))
                /\ mgr' = IF shut THEN "retpending" ELSE "startpass"
                /\ NoObs
                /\ UNCHANGED <<modv, en, mst, ncalls, sysStarted, shut, evReg, hookReg, ntrig, envpc, g, hist, done>>

\* Module.start: one critical section
MStart(m) == /\ mgr = "startpass" /\ mst[m] = "idle" /\ WantStart(m)
             /\ status' = [status EXCEPT ![m] = "starting"]
             /\ cancelled' = [cancelled EXCEPT ![m] = @ \cup {ctx[m]}]
             /\ ctx' = [ctx EXCEPT ![m] = @ + 1]
             /\ flag' = [flag EXCEPT ![m] = FALSE]
             /\ mst' = [mst EXCEPT ![m] = "b0"]
             /\ NoObs
             /\ UNCHANGED <<sc, scClosed, wcnt, en, mgr, ncalls, sysStarted, shut, evReg, hookReg, ntrig, envpc, g, hist, done>>
SfBeginA(m) == /\ mst[m] = "b0" /\ mst' = [mst EXCEPT ![m] = "b1"]
               /\ Obs([e |-> "sfbegin", m |-> m])
               /\ UNCHANGED <<modv, en, mgr, ncalls, sysStarted, shut, evReg, hookReg, ntrig, envpc, g, hist, done>>
\* driver step: release the start routine of m
RelStart(m) == /\ Room /\ mst[m] = "b1" /\ mst' = [mst EXCEPT ![m] = "b2"]
               /\ Obs([e |-> "sfend", m |-> m])
               /\ \E eager \in Flag : Step(St("relstart", m, "-", FALSE, 0, "-", FALSE, "ok", eager))
               /\ UNCHANGED <<modv, en, mgr, ncalls, sysStarted, shut, evReg, hookReg, ntrig, envpc, g, done>>
MOnline(m) == /\ mst[m] = "b2"
              /\ status' = [status EXCEPT ![m] = "online"]
              /\ scClosed' = [scClosed EXCEPT ![m] = @ \cup {sc[m]}]
              /\ mst' = [mst EXCEPT ![m] = "idle"]
              /\ NoObs
              /\ UNCHANGED <<flag, ctx, cancelled, sc, wcnt, en, mgr, ncalls, sysStarted, shut, evReg, hookReg, ntrig, envpc, g, hist, done>>
StartPassDone == /\ mgr = "startpass" /\ \A m \in MS : mst[m] = "idle" /\ ~WantStart(m)
                 /\ mgr' = "retpending"
                 /\ NoObs
                 /\ UNCHANGED <<modv, en, mst, ncalls, sysStarted, shut, evReg, hookReg, ntrig, envpc, g, hist, done>>
RetA == /\ mgr = "retpending" /\ mgr' = "none"
        /\ Obs([e |-> "ret", kind |-> ab.call])
        /\ UNCHANGED <<modv, en, mst, ncalls, sysStarted, shut, evReg, hookReg, ntrig, envpc, g, hist, done>>

\* ------------------------------------------------------------------ quiescence
Internal == \/ TrigCall \/ InjCall
            \/ \E i \in 1..Len(g) : ProcStart(i) \/ ProcStep(i) \/ SubRun(i) \/ HWait(i) \/ HWake(i) \/ HRun(i) \/ HFin(i)
            \/ \E m \in MS : MStop(m) \/ MFlag(m) \/ MCancel(m) \/ MOffline(m) \/ MStart(m) \/ SfBeginA(m) \/ MOnline(m)
            \/ StopPassDone \/ StartPassDone \/ RetA \/ TreeReset

Quiet == ~Busy /\ ~ENABLED Internal

SyncA == /\ Room /\ Quiet /\ ((\E i \in 1..Len(g) : g[i].pc = "held") \/ Seldom(3))
         /\ (Len(hist) > 0 => hist[Len(hist)].op # "sync")
         /\ Obs([e |-> "sync"])
         /\ Step(St("sync", "-", "-", FALSE, 0, "-", FALSE, "ok", FALSE))
         /\ UNCHANGED <<modv, en, mst, mgr, ncalls, sysStarted, shut, evReg, hookReg, ntrig, envpc, g, done>>

Finish == /\ ~done /\ ~Busy /\ (Len(hist) >= MaxSteps \/ rej)
          /\ done' = TRUE
          /\ (Emit => PrintT(<<"@@", ToJson([mgmt |-> Mgmt, sub |-> Subscribed, mods |-> Mods,
                                             deps |-> [i \in 1..Len(Mods) |-> SeqOf(Dep[Mods[i]])], steps |-> hist, rej |-> rej])>>))
          /\ UNCHANGED <<modv, en, mst, mgr, ncalls, sysStarted, shut, evReg, hookReg, ntrig, envpc, g, ab, rej, hist>>

Env == RegEv \/ RegHookA \/ TrigEmit \/ InjEmit \/ RelHook \/ SetEn \/ CallA \/ SyncA \/ RelTree \/ \E m \in MS : RelStart(m)
Next == Env \/ Internal \/ Finish
Spec == Init /\ [][Next]_vars

\* ------------------------------------------------------------------ what TLC checks
NoReject == ~rej
\* the same with the driver script that leads to the rejection printed (fault variant: Buggy = TRUE)
NoRejectPrint == rej => (PrintT(<<"@@", ToJson([mgmt |-> Mgmt, sub |-> Subscribed, mods |-> Mods,
                                                deps |-> [i \in 1..Len(Mods) |-> SeqOf(Dep[Mods[i]])],
                                                steps |-> hist, rej |-> TRUE])>>) /\ FALSE)
\* direct statements over the model state (independent of the monitor)
CountersOK == \A m \in MS : wcnt[m] = Cardinality({i \in 1..Len(g) : g[i].kind = "hook" /\ g[i].pc \in {"held", "body"} /\ g[i].h = m})
\* a hook never runs while its module is still starting for the first time
NotBeforeStart == \A i \in 1..Len(g) : (g[i].kind = "hook" /\ g[i].pc \in {"held", "body"}) => (ctx[g[i].h] > 0)
View == <<status, flag, en, ctx, cancelled, sc, scClosed, wcnt, mst, mgr, ncalls, sysStarted, shut, evReg, hookReg, ntrig, envpc, g, ab, rej, done, Len(hist),
          IF Len(hist) > 0 THEN hist[Len(hist)].op = "sync" ELSE FALSE>>
====
