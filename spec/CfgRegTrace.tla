---- MODULE CfgRegTrace ----
\* Validates what the Go config package did (driver harness/cmd/cfgreg) against spec/CfgReg.tla (X09).
\* trace.ndjson, one JSON object per line:
\*   {"e":"new"}   a fresh process: the config module started on an empty data root (start of a history)
\*   {"e":"op","op":{op,k,raw,spec,m},"res":{"err","recs":[view..],"keys":[k..],"vals":[{k,v}..]},
\*    "obs":{"recs":[view..],"pend":[k..],"act":[{k,v}..],"el":n,"each":[k..],"exp":[k..],"cf":[k..],"ch":[k..],"wt":[k..]}}
\*        one operation, what it returned, and what the package shows afterwards: obs.recs the complete
\*        Query of the database "config", pend the options carrying the restart-pending annotation, act
\*        GetActiveConfigValues(), el GetExpertiseLevel(), each the visits of ForEachOption, exp
\*        ExportOptions(), cf / ch the keys that Clean{Flattened,Hierarchical}Config left in the probe
\*        map, wt the keys for which a perspective getter of a wrong type answered (persp only)
\*        "feed":[view..] what a subscription to the whole database "config" received during the operation
\*   view = {k,t,rl,el,rr,an,d,v} as View(st, k) of the model
EXTENDS CfgReg, Json

Trace == ndJsonDeserialize("trace.ndjson")

VARIABLES st, l
vars == <<st, l>>

Init == st = Empty /\ l = 1

New == /\ l <= Len(Trace) /\ Trace[l].e = "new"
       /\ st' = Empty
       /\ l' = l + 1

WithPending(s, P) == [s EXCEPT !.reg = [k \in Keys(s) |-> [s.reg[k] EXCEPT !.pend = (k \in P)]]]

Match(x, ev) ==
    /\ "panic" \notin DOMAIN ev.res
    /\ IF x.res.err = "anyerr" THEN ev.res.err # "ok" ELSE ev.res.err = x.res.err
    /\ ev.res.recs = x.res.recs
    /\ SeqIsPermOfSet(ev.res.keys, x.res.keys)
    /\ SeqIsPermOfSet(ev.res.vals, x.res.vals)
    /\ FeedOK(ev.feed, x.fd)
    /\ ev.obs.recs = Views(x.st, <<>>)
    /\ Pending(x.st) \subseteq Range(ev.obs.pend)
    /\ Range(ev.obs.pend) \subseteq Pending(x.st) \cup x.may
    /\ SeqIsPermOfSet(ev.obs.act, Active(x.st))
    /\ ev.obs.el = ExpLevel(x.st)
    /\ SeqIsPermOfSet(ev.obs.each, Keys(x.st))
    /\ ev.obs.exp = SortKeys(Keys(x.st))
    /\ SeqIsPermOfSet(ev.obs.cf, Keys(x.st) \cap ProbeKeys)
    /\ SeqIsPermOfSet(ev.obs.ch, Keys(x.st) \cap ProbeKeys)
    /\ ev.obs.wt = <<>>

WellFormed(o) == /\ o.raw \in RawIds \cup {"absent"}
                 /\ o.spec.d \in RawIds
                 \* (a map as the value of a perspective entry is part of the nesting, not a value)
                 /\ \A i \in 1..Len(o.m) : o.m[i].raw \in RawIds \ {"nil", "x:map"}
                 /\ \A i, j \in 1..Len(o.m) : o.m[i].k = o.m[j].k => i = j

DoOp == /\ l <= Len(Trace) /\ Trace[l].e = "op"
        /\ WellFormed(Trace[l].op)
        /\ \E x \in Step(st, Trace[l].op) :
              /\ Match(x, Trace[l])
              /\ st' = WithPending(x.st, Range(Trace[l].obs.pend))
        /\ l' = l + 1

Next == New \/ DoOp
Spec == Init /\ [][Next]_vars

Accepted == TLCGet("stats").diameter - 1 = Len(Trace)
====
