---- MODULE ApiClientImpl ----
\* Implementation-shaped model of one connection of the api client (X13): one action per critical section of
\*   the server (sends frames, then drops the connection),
\*   wsReader (socket -> parse -> recv queue),
\*   handler (recv queue -> look the operation up under the client lock | deliver to it outside that lock),
\*   Connect/signalOffline (after the reader has ended: tell every registered operation, under the client lock),
\*   a user calling Cancel on operation 2 (twice).
\* Operation 1 has a callback, operation 2 has none (its messages go to its buffered channel, which Cancel closes).
\* TLC checks over every interleaving that what the callbacks see stays inside what ApiClient.tla allows for
\* flood/drop/cancel steps (Refines) and that nothing panics (NoCrash).  Guarded = FALSE is the design without the
\* per-operation guard between dispatcher and Cancel: TLC must find the crash there (the check runs that too).
EXTENDS Integers, Sequences, FiniteSets, TLC

CONSTANTS NFrames, Guarded

Targets == {0, 1, 2}          \* 0: an id the client does not know
Classes == {"good", "bad"}

VARIABLES sent,       \* frames the server has sent: sequence of [to, cls, n]
          sock,       \* frames in the socket, not yet read
          dropped,    \* the server has closed the connection
          recv,       \* the client's receive queue
          readerDone,
          hcur,       \* message the handler has looked up and not yet delivered (or "none")
          registered, \* the client's operation table
          closed,     \* operation 2's channel is closed
          delivered,  \* what each operation has been handed
          offlineDone,
          cancels,    \* completed Cancel calls on operation 2
          lenAtCancel,
          crash
vars == <<sent, sock, dropped, recv, readerDone, hcur, registered, closed, delivered, offlineDone, cancels, lenAtCancel, crash>>

None == [to |-> -1, cls |-> "none", n |-> 0]
Off  == [to |-> -2, cls |-> "offline", n |-> 0]

Init == /\ sent = <<>> /\ sock = <<>> /\ dropped = FALSE /\ recv = <<>> /\ readerDone = FALSE
        /\ hcur = None /\ registered = {1, 2} /\ closed = FALSE
        /\ delivered = [i \in {1, 2} |-> <<>>] /\ offlineDone = FALSE /\ cancels = 0 /\ lenAtCancel = 0 /\ crash = FALSE

Send == /\ ~dropped /\ Len(sent) < NFrames
        /\ \E t \in Targets, c \in Classes :
             LET f == [to |-> t, cls |-> c, n |-> Len(sent) + 1] IN
             sent' = Append(sent, f) /\ sock' = Append(sock, f)
        /\ UNCHANGED <<dropped, recv, readerDone, hcur, registered, closed, delivered, offlineDone, cancels, lenAtCancel, crash>>

Drop == /\ ~dropped /\ dropped' = TRUE
        /\ UNCHANGED <<sent, sock, recv, readerDone, hcur, registered, closed, delivered, offlineDone, cancels, lenAtCancel, crash>>

Read == /\ ~readerDone
        /\ \/ /\ sock # <<>>
              /\ sock' = Tail(sock)
              /\ recv' = IF Head(sock).cls = "good" THEN Append(recv, Head(sock)) ELSE recv
              /\ UNCHANGED readerDone
           \/ /\ sock = <<>> /\ dropped
              /\ readerDone' = TRUE /\ UNCHANGED <<sock, recv>>
        /\ UNCHANGED <<sent, dropped, hcur, registered, closed, delivered, offlineDone, cancels, lenAtCancel, crash>>

\* handler, first half: take the next message and look its operation up (client lock)
Lookup == /\ hcur = None /\ recv # <<>>
          /\ recv' = Tail(recv)
          /\ hcur' = IF Head(recv).to \in registered THEN Head(recv) ELSE None
          /\ UNCHANGED <<sent, sock, dropped, readerDone, registered, closed, delivered, offlineDone, cancels, lenAtCancel, crash>>

\* handing a message to an operation: callback, or channel send (a send on a closed channel panics)
Hand(i, m) == IF i = 1 THEN delivered' = [delivered EXCEPT ![1] = Append(@, m)] /\ UNCHANGED crash
              ELSE IF closed THEN (IF Guarded THEN UNCHANGED <<delivered, crash>> ELSE crash' = TRUE /\ UNCHANGED delivered)
              ELSE delivered' = [delivered EXCEPT ![2] = Append(@, m)] /\ UNCHANGED crash

\* handler, second half: deliver outside the client lock
Deliver == /\ hcur # None
           /\ Hand(hcur.to, hcur)
           /\ hcur' = None
           /\ UNCHANGED <<sent, sock, dropped, recv, readerDone, registered, closed, offlineDone, cancels, lenAtCancel>>

\* Connect returns when the reader and writer have ended; signalOffline tells every registered operation
SignalOffline == /\ readerDone /\ ~offlineDone
                 /\ offlineDone' = TRUE
                 /\ delivered' = [i \in {1, 2} |-> IF i \in registered THEN Append(delivered[i], Off) ELSE delivered[i]]
                 /\ UNCHANGED <<sent, sock, dropped, recv, readerDone, hcur, registered, closed, cancels, lenAtCancel, crash>>

\* Cancel on operation 2 (client lock): unregister and close the channel; closing twice panics
Cancel == /\ cancels < 2
          /\ cancels' = cancels + 1
          /\ registered' = registered \ {2}
          /\ IF Guarded THEN closed' = TRUE /\ UNCHANGED crash
             ELSE IF closed THEN crash' = TRUE /\ UNCHANGED closed ELSE closed' = TRUE /\ UNCHANGED crash
          /\ lenAtCancel' = IF cancels = 0 THEN Len(delivered[2]) ELSE lenAtCancel
          /\ UNCHANGED <<sent, sock, dropped, recv, readerDone, hcur, delivered, offlineDone>>

Next == Send \/ Drop \/ Read \/ Lookup \/ Deliver \/ SignalOffline \/ Cancel
Spec == Init /\ [][Next]_vars

TypeOK == /\ registered \subseteq {1, 2} /\ cancels \in 0..2 /\ Len(sent) <= NFrames
          /\ Len(sock) + Len(recv) <= NFrames

For(i) == SelectSeq(sent, LAMBDA f : f.to = i /\ f.cls = "good")
Data(i) == SelectSeq(delivered[i], LAMBDA m : m # Off)
Offs(i) == Len(delivered[i]) - Len(Data(i))
IsPrefix(s, t) == Len(s) <= Len(t) /\ \A k \in 1..Len(s) : s[k] = t[k]
Drained == readerDone /\ recv = <<>> /\ hcur = None /\ offlineDone

\* S3/S4/S5 for every interleaving: in order, nothing foreign, nothing made up, one offline message at most;
\* everything and exactly one offline message once the client has drained; after Cancel has returned at most
\* the one message the dispatcher had already looked up still arrives
Refines == /\ \A i \in {1, 2} : IsPrefix(Data(i), For(i)) /\ Offs(i) <= 1
           /\ Drained => Data(1) = For(1) /\ Offs(1) = 1
           /\ (Drained /\ cancels = 0) => Data(2) = For(2) /\ Offs(2) = 1
           /\ cancels > 0 => Len(delivered[2]) <= lenAtCancel + (IF Guarded THEN 0 ELSE 1)
NoCrash == ~crash
====
