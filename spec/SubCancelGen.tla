---- MODULE SubCancelGen ----
\* Behaviours of SubCancel projected to the sequence of actors taking steps = scheduling policies for the
\* yield-point driver harness/cmd/dbacc (mode "conc"): i > 0 = writer i, -s = canceller of subscription s.
EXTENDS SubCancel, Json

VARIABLES hist, done
gvars == <<vars, hist, done>>

Label == IF \E w \in Writers : wpc'[w] # wpc[w] \/ wj'[w] # wj[w]
         THEN CHOOSE w \in Writers : wpc'[w] # wpc[w] \/ wj'[w] # wj[w]
         ELSE 0 - (CHOOSE s \in Subs : cpc'[s] # cpc[s])

GenInit == Init /\ hist = <<>> /\ done = FALSE
GenStep == /\ ~done /\ Next /\ hist' = Append(hist, Label) /\ done' = done
GenEmit == /\ ~done /\ Terminal /\ done' = TRUE
           /\ PrintT(<<"@@", ToJson([nw |-> NW, per |-> WritesPer, nsub |-> NSub, cancels |-> Cancels,
                                      sameq |-> SameQuery, policy |-> hist])>>)
           /\ UNCHANGED <<vars, hist>>
GenNext == GenStep \/ GenEmit
GenSpec == GenInit /\ [][GenNext]_gvars
====
