---- MODULE RecordAccessGen ----
\* Properties C03 / C14.  Three uses of spec/RecordAccess.tla:
\*   Mode = "bfs"    breadth-first model checking of the laws (NoLeak, FeedExact, HooksExact, Total) on every
\*                   reachable state of a small domain (Emit = FALSE)
\*   Mode = "table"  exhaustive enumeration of the C03 table: record flags (4) x reader privileges (4) x access
\*                   path; every row is printed as a script for the driver, the laws are checked along it
\*   Mode = "sim"    TLC -simulate: random histories (scripts) for the driver
EXTENDS RecordAccess, Json

CONSTANTS Mode, MaxLen, Emit,
          GKeys, GNs, GIfs,     \* domains of keys, contents, calling interfaces used for generation
          GSubs, GHooks,        \* subscription / hook slots that may be used
          BurstN,               \* 0, or the length of a burst (> FeedCap) that may be generated once
          GQs, GFams, GPhases,  \* query objects, call families and hook phase sets used for generation
          Track,                \* keep the write log of the history (law FeedExact); FALSE: state = model state only
          Flavour               \* "c03" (flags, privileges, all paths) | "c14" (subscriptions and hooks)

VARIABLES st, hist, cfg, aux, bad, todo, done
vars == <<st, hist, cfg, aux, bad, todo, done>>

Pick(S) == IF Emit /\ Mode = "sim" THEN {RandomElement(S)} ELSE S
PickSeq(s) == IF Emit /\ Mode = "sim" THEN {s[RandomElement(1..Len(s))]} ELSE Range(s)

\* query objects of a history: ops refer to them by index (same index = same *query.Query in the driver)
NQ == 3
QueryTables == IF Mode = "sim" THEN {} ELSE
    { << [p |-> 1, c |-> 1], [p |-> 3, c |-> 2], [p |-> 3, c |-> 2] >> }
NoCfg == [kind |-> "unset", api |-> FALSE, cachei |-> 0, queries |-> <<>>, row |-> <<>>]
NoAux == [cached |-> {}, wlog |-> <<>>, from |-> [s \in Slots |-> 0], to |-> [s \in Slots |-> -1],
          got |-> [s \in Slots |-> <<>>], quiet |-> FALSE]

O0(name, via, i) == Op(name, via, i, 0, 0, FALSE, FALSE, 0, 1, 1, 0, <<>>, "pass", <<>>, 0)
KeyOp(name, via, i, k, n, sec, crown) == Op(name, via, i, k, n, sec, crown, 0, 1, 1, 0, <<>>, "pass", <<>>, 0)
QOp(name, via, i, q, slot) == Op(name, via, i, 0, 0, FALSE, FALSE, q, cfg.queries[q].p, cfg.queries[q].c, slot, <<>>, "pass", <<>>, 0)
SlotOp(name, via, slot) == Op(name, via, 0, 0, 0, FALSE, FALSE, 0, 1, 1, slot, <<>>, "pass", <<>>, 0)
HookOp(q, slot, ph, beh) == Op("RegisterHook", "db", 0, 0, 0, FALSE, FALSE, q, cfg.queries[q].p, cfg.queries[q].c, slot, ph, beh, <<>>, 0)

PhaseSets == << <<"preGet">>, <<"postGet">>, <<"prePut">>, <<"preGet", "prePut">>, <<"postGet", "prePut">>,
               <<"preGet", "postGet", "prePut">> >>       \* GPhases: indexes into this list
Batches == { <<BatchItem(1, 3, FALSE, FALSE)>>,
             <<BatchItem(1, 1, TRUE, FALSE), BatchItem(2, 2, FALSE, FALSE)>>,
             <<BatchItem(2, 3, FALSE, TRUE), BatchItem(3, 1, FALSE, FALSE), BatchItem(2, 1, FALSE, FALSE)>> }

\* exclusive use of a cached interface (documented caveat of Options.CacheSize): what the cached interface
\* has touched is not written by anybody else, and it does not delete or expire (C02 judges cache coherence)
Foreign(i) == cfg.cachei # 0 /\ i # cfg.cachei
FreeKey(i, k) == ~(Foreign(i) /\ k \in aux.cached)
CacheOn == cfg.cachei # 0
Flags == IF Flavour = "c14" /\ Mode = "bfs" THEN {<<FALSE, FALSE>>, <<TRUE, FALSE>>} ELSE BOOLEAN \X BOOLEAN

\* simulation prefers keys that hold a record for reads and get-modify-put calls (3 of 4 draws)
PresentKeys == {k \in GKeys : st.store[k].present}
RKeys == IF Emit /\ Mode = "sim" /\ PresentKeys # {} /\ RandomElement(1..4) > 1 THEN PresentKeys ELSE GKeys

Family == {"put", "mut", "read", "bulk", "sub", "unsub", "hook", "unhook", "push", "api", "burst"}
OpsOf(f) ==
  CASE f = "put" -> {KeyOp(nm, "if", i, k, n, fl[1], fl[2]) : nm \in {"Put", "PutNew"}, i \in GIfs,
                        k \in GKeys, n \in GNs, fl \in Flags}
    [] f = "mut" -> LET KS == RKeys IN
                    {KeyOp(nm, "if", i, k, 0, FALSE, FALSE) :
                        nm \in {"SetAbsoluteExpiry", "SetRelativeExpiry", "MakeSecret", "MakeCrownJewel", "Delete"}, i \in GIfs, k \in KS}
                    \cup {KeyOp("InsertValue", "if", i, k, n, FALSE, FALSE) : i \in GIfs, k \in KS, n \in GNs}
    [] f = "read" -> LET KS == RKeys IN
                     {KeyOp(nm, "if", i, k, 0, FALSE, FALSE) : nm \in {"Get", "Exists"}, i \in GIfs, k \in KS}
                     \cup {QOp("Query", "if", i, q, 0) : i \in GIfs, q \in GQs}
    [] f = "bulk" -> IF CacheOn THEN {} ELSE
                     {QOp("Purge", "if", i, q, 0) : i \in GIfs, q \in GQs}
                     \cup {[O0("PutMany", "if", i) EXCEPT !.batch = b] : i \in GIfs, b \in Batches}
    [] f = "sub" -> {QOp("Subscribe", "if", i, q, s) : i \in GIfs, q \in GQs, s \in {s \in GSubs : ~st.subs[s].used}}
    \* (also subscriptions that were cancelled before: a second cancel must be harmless)
    [] f = "unsub" -> {SlotOp("CancelSub", "if", s) : s \in {s \in GSubs : st.subs[s].used /\ ~st.subs[s].lazy}}
    [] f = "hook" -> IF CacheOn THEN {} ELSE
                     {HookOp(q, h, ph, beh) : q \in GQs, h \in {h \in GHooks : ~st.hooks[h].used}, ph \in {PhaseSets[j] : j \in GPhases},
                                               beh \in {"pass", "replace", "veto"}}
    [] f = "unhook" -> {SlotOp("CancelHook", "db", h) : h \in {h \in GHooks : st.hooks[h].active}}
    [] f = "push" -> IF cfg.kind # "runtime" THEN {} ELSE
                     {KeyOp("Push", "db", 0, k, n, fl[1], fl[2]) : k \in GKeys, n \in GNs, fl \in Flags}
    [] f = "api" -> IF ~cfg.api THEN {} ELSE
                     {KeyOp(nm, "api", 1, k, n, FALSE, FALSE) : nm \in {"Put", "PutNew", "InsertValue"}, k \in GKeys, n \in GNs}
                     \cup {KeyOp(nm, "api", 1, k, 0, FALSE, FALSE) : nm \in {"Get", "Delete"}, k \in GKeys}
                     \cup {QOp("Query", "api", 1, q, 0) : q \in GQs}
                     \cup {QOp(nm, "api", 1, q, s) : nm \in {"Subscribe", "Qsub"}, q \in GQs, s \in {s \in GSubs : ~st.subs[s].used}}
                     \cup {SlotOp("CancelSub", "api", s) : s \in {s \in GSubs : st.subs[s].active /\ st.subs[s].lazy}}
    [] f = "burst" -> IF BurstN = 0 \/ CacheOn \/ aux.quiet \/ (\E h \in HSlots : st.hooks[h].used)
                         \/ (\E s \in Slots : st.subs[s].lazy) \/ (\A s \in Slots : ~st.subs[s].active) THEN {}
                      ELSE {[KeyOp("Burst", "if", Full, k, 0, fl[1], fl[2]) EXCEPT !.cnt = BurstN] : k \in GKeys, fl \in Flags}

\* the calls that may come next (cache exclusivity applied)
Allowed(o) ==
    /\ (o.k # 0 /\ o.op \notin {"Get", "Exists"}) => FreeKey(IF o.via = "if" THEN o.i ELSE 5, o.k)
    /\ (CacheOn /\ o.via = "if" /\ o.i = cfg.cachei) => o.op \notin {"Delete"}
FamOps(f) == {o \in OpsOf(f) : Allowed(o)}

\* weights of the families per flavour (a family is drawn, then one of its calls)
Weighted == IF BurstN > 0 THEN <<"sub", "sub", "put", "burst", "burst", "burst", "unsub", "mut", "push">>
            ELSE IF Flavour = "c14"
            THEN <<"put", "put", "put", "mut", "mut", "mut", "mut", "read", "read", "sub", "sub", "unsub", "hook", "hook", "unhook", "push", "push", "api", "bulk">>
            ELSE <<"put", "put", "mut", "mut", "mut", "read", "read", "read", "bulk", "sub", "unsub", "push", "api", "api", "api", "hook">>
\* (breadth-first: every family once)
FamIdx == IF Mode = "sim" THEN {j \in 1..Len(Weighted) : Weighted[j] \in GFams /\ FamOps(Weighted[j]) # {}}
          ELSE {j \in 1..Len(Weighted) : Weighted[j] \in GFams /\ \A l \in 1..(j - 1) : Weighted[l] # Weighted[j]}

\* ---------------------------------------------------------------- the laws, checked on every transition
\* names of the laws that the outcome x of call o in state s breaks
Broken(s, o, x, a) ==
    (IF LeakRead(s, o, x.res) THEN {"NoLeak-read"} ELSE {})
    \cup (IF LeakFeed(s, x.feeds) THEN {"NoLeak-feed"} ELSE {})
    \cup (IF LeakWrite(s, o, x.st.store) THEN {"NoLeak-write"} ELSE {})
    \cup (IF FeedSound(s, x.feeds) THEN {} ELSE {"FeedSound"})
    \cup (IF x.res.err \in {"veto", "denied", "notfound", "other"} /\ (x.st.store # s.store \/ \E t \in Slots : x.feeds[t].items # <<>> /\ t # x.lazyslot)
          THEN {"FailedCallChangesNothing"} ELSE {})
    \cup (IF \A j \in 1..Len(x.calls) : s.hooks[x.calls[j].h].active /\ InSeq(x.calls[j].ph, s.hooks[x.calls[j].h].ph)
                                         /\ KeyMatch(s.hooks[x.calls[j].h].p, x.calls[j].k)
          THEN {} ELSE {"HookCalledOutsideRegistration"})
    \cup (IF \A j, l \in 1..Len(x.calls) : (j < l /\ x.calls[j].ph = x.calls[l].ph) =>
                (\E u, v \in 1..Len(s.horder) : u < v /\ s.horder[u] = x.calls[j].h /\ s.horder[v] = x.calls[l].h)
          THEN {} ELSE {"HookOrder"})

\* history-level formulation of C14: what a subscription got over its life is exactly the permitted matching
\* part of the log of notified writes between its subscribe and its cancel, in order
Notified(s, o, x) == \* the records of this call that were announced to subscribers: read off the full-privilege view
    IF x.res.err # "ok" THEN <<>>
    ELSE CASE o.op \in {"Put", "PutNew", "InsertValue", "SetAbsoluteExpiry", "SetRelativeExpiry", "MakeSecret", "MakeCrownJewel", "Push"} ->
                <<View(o.k, x.st.store[o.k], FALSE)>>
           [] o.op = "Delete" -> <<[View(o.k, s.store[o.k], TRUE) EXCEPT !.n = IF \E j \in 1..Len(x.calls) : s.hooks[x.calls[j].h].beh = "replace" /\ x.calls[j].ph # "preGet" THEN Subst ELSE @]>>
           [] OTHER -> <<>>
AuxAfter(s, o, x, a) ==
    LET w == Notified(s, o, x)
        wl == a.wlog \o w
        quietbulk == o.op \in {"Purge", "PutMany", "Burst", "FlushLater"} /\ x.res.err = "ok"
    IN [cached |-> IF CacheOn /\ o.via = "if" /\ o.i = cfg.cachei /\ o.k # 0 THEN a.cached \cup {o.k} ELSE a.cached,
        wlog |-> wl,
        from |-> IF o.op \in {"Subscribe", "Qsub"} /\ x.res.err = "ok" THEN [a.from EXCEPT ![o.slot] = Len(a.wlog)] ELSE a.from,
        to |-> IF o.op = "CancelSub" /\ x.res.err = "ok" /\ a.to[o.slot] < 0 THEN [a.to EXCEPT ![o.slot] = Len(wl)] ELSE a.to,
        got |-> [t \in Slots |-> a.got[t] \o x.feeds[t].items],
        quiet |-> a.quiet \/ quietbulk]
FeedExact(s, a) ==
    a.quiet \/ \A t \in Slots : (s.subs[t].used /\ ~s.subs[t].lazy) =>
        LET hi == IF a.to[t] < 0 THEN Len(a.wlog) ELSE a.to[t]
            span == SubSeq(a.wlog, a.from[t] + 1, hi)
            S == [s.subs[t] EXCEPT !.active = TRUE]
        IN a.got[t] = SelectSeq(span, LAMBDA w : Wants(S, w))

\* ---------------------------------------------------------------- the C03 table
W == Full
Paths == {"get", "getcached", "cachedwrite", "query", "sub", "push", "insert", "setabs", "setrel", "makesecret", "makecrown",
          "delete", "purge", "cachedpurge", "putmany", "put", "putnew", "delayedwrite", "putmark",
          "apiget", "apiquery", "apisub", "apiqsub", "apiupdate", "apicreate", "apiinsert", "apidelete"}
ApiPath(p) == p \in {"apiget", "apiquery", "apisub", "apiqsub", "apiupdate", "apicreate", "apiinsert", "apidelete"}
TQ(name, via, i, q, slot, T) == Op(name, via, i, 0, 0, FALSE, FALSE, q, T[q].p, T[q].c, slot, <<>>, "pass", <<>>, 0)
PathOps(path, i, sec, crown, T) ==
    LET k == 1
        pre == << KeyOp("Put", "if", W, k, 2, sec, crown), KeyOp("Put", "if", W, 3, 1, FALSE, FALSE), KeyOp("Put", "if", W, 2, 3, FALSE, FALSE) >>
        post == << KeyOp("Get", "if", W, k, 0, FALSE, FALSE) >>
        body ==
          CASE path = "get" -> << KeyOp("Get", "if", i, k, 0, FALSE, FALSE), KeyOp("Exists", "if", i, k, 0, FALSE, FALSE) >>
            [] path = "getcached" -> << KeyOp("Get", "if", i, k, 0, FALSE, FALSE), KeyOp("Get", "if", i, k, 0, FALSE, FALSE),
                                        KeyOp("Exists", "if", i, k, 0, FALSE, FALSE), KeyOp("Get", "if", i, 2, 0, FALSE, FALSE),
                                        KeyOp("Get", "if", i, 2, 0, FALSE, FALSE) >>
            [] path = "cachedwrite" -> << KeyOp("Get", "if", i, k, 0, FALSE, FALSE), KeyOp("InsertValue", "if", i, k, 3, FALSE, FALSE),
                                          KeyOp("Get", "if", i, k, 0, FALSE, FALSE), KeyOp("Put", "if", i, 4, 1, sec, crown),
                                          KeyOp("Get", "if", i, 4, 0, FALSE, FALSE), KeyOp("MakeSecret", "if", i, 2, 0, FALSE, FALSE),
                                          KeyOp("Get", "if", i, 2, 0, FALSE, FALSE) >>
            [] path = "query" -> << TQ("Query", "if", i, 1, 0, T), TQ("Query", "if", i, 2, 0, T) >>
            [] path = "sub" -> << TQ("Subscribe", "if", i, 1, 1, T), TQ("Subscribe", "if", i, 2, 2, T),
                                  KeyOp("Put", "if", W, k, 3, sec, crown), KeyOp("InsertValue", "if", W, k, 2, FALSE, FALSE),
                                  KeyOp("SetAbsoluteExpiry", "if", W, k, 0, FALSE, FALSE),
                                  KeyOp("MakeSecret", "if", W, 2, 0, FALSE, FALSE), KeyOp("MakeCrownJewel", "if", W, 3, 0, FALSE, FALSE),
                                  KeyOp("Delete", "if", W, k, 0, FALSE, FALSE), KeyOp("Delete", "if", W, 2, 0, FALSE, FALSE),
                                  SlotOp("CancelSub", "if", 1), SlotOp("CancelSub", "if", 2) >>
            [] path = "push" -> << TQ("Subscribe", "if", i, 1, 1, T), KeyOp("Push", "db", 0, k, 3, sec, crown),
                                   KeyOp("Get", "if", i, k, 0, FALSE, FALSE), TQ("Query", "if", i, 1, 0, T),
                                   KeyOp("Push", "db", 0, 4, 2, sec, crown), TQ("Query", "if", i, 2, 0, T), SlotOp("CancelSub", "if", 1) >>
            [] path = "insert" -> << KeyOp("InsertValue", "if", i, k, 3, FALSE, FALSE) >>
            [] path = "setabs" -> << KeyOp("SetAbsoluteExpiry", "if", i, k, 0, FALSE, FALSE) >>
            [] path = "setrel" -> << KeyOp("SetRelativeExpiry", "if", i, k, 0, FALSE, FALSE) >>
            [] path = "makesecret" -> << KeyOp("MakeSecret", "if", i, k, 0, FALSE, FALSE) >>
            [] path = "makecrown" -> << KeyOp("MakeCrownJewel", "if", i, k, 0, FALSE, FALSE) >>
            [] path = "delete" -> << KeyOp("Delete", "if", i, k, 0, FALSE, FALSE) >>
            [] path \in {"purge", "cachedpurge"} -> << TQ("Purge", "if", i, 2, 0, T), KeyOp("Get", "if", W, k, 0, FALSE, FALSE), TQ("Purge", "if", i, 1, 0, T) >>
            [] path = "putmany" -> << [O0("PutMany", "if", i) EXCEPT !.batch = <<BatchItem(k, 3, FALSE, FALSE), BatchItem(4, 1, FALSE, FALSE)>>] >>
            [] path = "put" -> << KeyOp("Put", "if", i, k, 3, FALSE, FALSE), KeyOp("Put", "if", i, 4, 1, TRUE, TRUE),
                                  KeyOp("Get", "if", i, 4, 0, FALSE, FALSE), KeyOp("Put", "if", i, 4, 2, FALSE, FALSE) >>
            [] path = "putnew" -> << KeyOp("PutNew", "if", i, k, 3, FALSE, FALSE) >>
            \* the interface itself marks everything it saves with the flags of the stored record (options AlwaysMakeSecret /
            \* AlwaysMakeCrownjewel, set by the driver for this row): marking is no privilege
            [] path = "putmark" -> << KeyOp("Put", "if", i, k, 3, sec, crown), KeyOp("PutNew", "if", i, k, 1, sec, crown),
                                      KeyOp("Get", "if", i, k, 0, FALSE, FALSE) >>
            \* a write accepted into a delayed write cache while the key was free, a flagged record stored there by a
            \* privileged interface meanwhile, then the flush
            [] path = "delayedwrite" -> << KeyOp("PutLater", "if", i, 4, 1, FALSE, FALSE), KeyOp("Put", "if", W, 4, 2, sec, crown),
                                           O0("FlushLater", "if", i), KeyOp("Get", "if", W, 4, 0, FALSE, FALSE),
                                           KeyOp("Get", "if", i, 4, 0, FALSE, FALSE), KeyOp("PutLater", "if", i, 2, 3, FALSE, FALSE),
                                           O0("FlushLater", "if", i), KeyOp("Get", "if", W, 2, 0, FALSE, FALSE) >>
            [] path = "apiget" -> << KeyOp("Get", "api", 1, k, 0, FALSE, FALSE), KeyOp("Get", "api", 1, 3, 0, FALSE, FALSE) >>
            [] path = "apiquery" -> << TQ("Query", "api", 1, 1, 0, T), TQ("Query", "api", 1, 2, 0, T) >>
            [] path = "apisub" -> << TQ("Subscribe", "api", 1, 1, 1, T), KeyOp("Put", "if", W, k, 3, sec, crown),
                                     KeyOp("Put", "if", W, 3, 2, FALSE, FALSE), KeyOp("Delete", "if", W, k, 0, FALSE, FALSE),
                                     SlotOp("CancelSub", "api", 1) >>
            [] path = "apiqsub" -> << TQ("Qsub", "api", 1, 1, 1, T), KeyOp("InsertValue", "if", W, k, 3, FALSE, FALSE),
                                      KeyOp("MakeSecret", "if", W, 3, 0, FALSE, FALSE), KeyOp("Delete", "if", W, k, 0, FALSE, FALSE),
                                      SlotOp("CancelSub", "api", 1) >>
            [] path = "apiupdate" -> << KeyOp("Put", "api", 1, k, 3, FALSE, FALSE) >>
            [] path = "apicreate" -> << KeyOp("PutNew", "api", 1, k, 3, FALSE, FALSE) >>
            [] path = "apiinsert" -> << KeyOp("InsertValue", "api", 1, k, 3, FALSE, FALSE) >>
            [] path = "apidelete" -> << KeyOp("Delete", "api", 1, k, 0, FALSE, FALSE) >>
    IN pre \o body \o post

TableRows == {<<path, i, fl>> : path \in Paths, i \in Ifaces, fl \in BOOLEAN \X BOOLEAN}
RowOK(r) == (ApiPath(r[1]) => r[2] = 1) /\ (r[1] = "putmark" => r[2] # W)
RowCfg(r, T) == [kind |-> IF r[1] = "push" THEN "runtime" ELSE IF r[1] \in {"purge", "cachedpurge", "putmany", "delayedwrite"} THEN "store" ELSE "any",
                 api |-> ApiPath(r[1]),
                 cachei |-> IF r[1] \in {"getcached", "cachedwrite", "cachedpurge"} THEN r[2] ELSE 0,
                 queries |-> T,
                 row |-> <<r[1], ToString(r[2]), IF r[3][1] THEN "secret" ELSE "-", IF r[3][2] THEN "crownjewel" ELSE "-">>]

\* ---------------------------------------------------------------- behaviours
TableT == << [p |-> 1, c |-> 1], [p |-> 3, c |-> 2], [p |-> 3, c |-> 2] >>
Init == /\ st = InitState /\ hist = <<>> /\ aux = NoAux /\ bad = {} /\ done = FALSE
        /\ IF Mode = "table"
           THEN \E r \in {r \in TableRows : RowOK(r)} :
                    /\ cfg = RowCfg(r, TableT)
                    /\ todo = PathOps(r[1], r[2], r[3][1], r[3][2], TableT)
           ELSE IF Mode = "bfs"
           THEN /\ cfg \in {[kind |-> kd, api |-> TRUE, cachei |-> 0, queries |-> T, row |-> <<>>] : kd \in {"runtime"}, T \in QueryTables}
                /\ todo = <<>>
           ELSE cfg = NoCfg /\ todo = <<>>

\* simulation: the first step draws the configuration of the history
QPairs == {[p |-> p, c |-> c] : p \in Pfxs, c \in Conds}
Setup == /\ Mode = "sim" /\ cfg.kind = "unset"
         /\ \E kd \in PickSeq(<<"store", "store", "runtime">>) : \E ap \in Pick(BOOLEAN) :
            \E ci \in PickSeq(IF Flavour = "c14" THEN <<0, 0, 0, 0, 4, 1>> ELSE <<0, 0, 1, 2, 3, 4>>) :
            \E q1 \in Pick(QPairs) : \E q2 \in Pick(QPairs) : \E q3 \in Pick({[p |-> p, c |-> 1] : p \in {1, 3}}) :
                cfg' = [kind |-> kd, api |-> ap, cachei |-> ci, queries |-> <<q1, q2, q3>>, row |-> <<>>]
         /\ UNCHANGED <<st, hist, aux, bad, todo, done>>

Outcomes(o) == IF Mode = "bfs" THEN Step(st, o, FALSE) ELSE Strict(st, o, FALSE)
Apply(o) == \E x \in Pick(Outcomes(o)) :
               /\ st' = x.st
               /\ hist' = IF Emit THEN Append(hist, o) ELSE hist
               /\ bad' = Broken(st, o, x, aux)
               /\ aux' = IF Track THEN AuxAfter(st, o, x, aux) ELSE aux

DoOp == /\ Mode # "table" /\ cfg.kind # "unset" /\ ~done
        /\ Mode = "sim" => Len(hist) < MaxLen
        /\ \E j \in Pick(FamIdx) : \E o \in Pick(FamOps(Weighted[j])) : Apply(o)
        /\ UNCHANGED <<cfg, todo, done>>

DoRow == /\ Mode = "table" /\ todo # <<>> /\ ~done
         /\ Apply(Head(todo))
         /\ todo' = Tail(todo)
         /\ UNCHANGED <<cfg, done>>

Finish == /\ Emit /\ ~done
          /\ IF Mode = "table" THEN todo = <<>> ELSE Mode = "sim" /\ Len(hist) = MaxLen
          /\ done' = TRUE
          /\ PrintT(<<"@@", ToJson([kind |-> cfg.kind, api |-> cfg.api, cachei |-> cfg.cachei, queries |-> cfg.queries,
                                    row |-> cfg.row, steps |-> hist])>>)
          /\ UNCHANGED <<st, hist, cfg, aux, bad, todo>>

Next == Setup \/ DoOp \/ DoRow \/ Finish
Spec == Init /\ [][Next]_vars

\* ---------------------------------------------------------------- invariants
LawsOK == bad = {}
FeedsOK == FeedExact(st, aux)
\* every call that can be generated has an allowed outcome, and the table rows never run into an undefined call
TotalOK == /\ cfg.kind # "unset" /\ Mode = "bfs" => \A f \in GFams : \A o \in FamOps(f) : Strict(st, o, FALSE) # {}
           /\ Mode = "table" /\ todo # <<>> => Strict(st, Head(todo), FALSE) # {}
Depth == (MaxLen > 0 => TLCGet("level") <= MaxLen) /\ \A s \in Slots : Len(st.subs[s].acc) <= 2
GenView == <<st, cfg, aux, bad, todo, done>>
====
