---- MODULE DsdTrace ----
\* Validates recorded calls of formats/dsd against the Dsd model (C09). Stateless: one event per case.
\*  {"e":"rt",    "api":"dump"|"compress", "f","c","dser","kind", "dok","id","inner", "via", "lok","lraw","lfmt", "want","got"}
\*  {"e":"req",   "f","dser","kind", "dok","ct","ctt","sniff", "lok","lfmt", "want","got"}          DumpToHTTPRequest -> LoadFromHTTPRequest
\*  {"e":"resp",  "api":"resp"|"mime", "hdr","dser","kind", "dok","ct","ctt","sniff", "lok","lfmt","want","got"}   DumpToHTTPResponse -> LoadFromHTTPResponse
\*  {"e":"cload", "api":"req"|"resp", "hdr","fb","kind", "lok","lfmt","want","got"}                   body in fb labelled hdr -> LoadFromHTTP*
\*  {"e":"echo",  "f","kind","dok","sok","sfmt","sgot","rok","ct","ctt","sniff","lok","lfmt","want","got"}   over a loopback socket
\*  {"e":"total", "api","cls","n","ok"}                                                               Load* of corrupted / random bytes
\* Any event with a field "panic" is rejected: no call may panic.
EXTENDS Dsd, Json, TLC

Trace == ndJsonDeserialize("trace.ndjson")
VARIABLE l

Good(ev) ==
    /\ "panic" \notin DOMAIN ev
    /\ CASE ev.e = "rt"    -> RtGood(ev)
         [] ev.e = "req"   -> ReqGood(ev)
         [] ev.e = "resp"  -> RespGood(ev)
         [] ev.e = "cload" -> CloadGood(ev)
         [] ev.e = "echo"  -> EchoGood(ev)
         [] ev.e = "total" -> ev.ok \in BOOLEAN        \* a value or an error

Bad == {i \in 1..Len(Trace) : ~Good(Trace[i])}
Init == l = 0 /\ PrintT(<<"@@", ToJson([bad |-> Bad, n |-> Len(Trace)])>>)
Next == l < 1 /\ l' = 1
Spec == Init /\ [][Next]_l
Accepted == TLCGet("level") >= 0 /\ Bad = {}
====
