---- MODULE USyncFlag ----
\* Implementation-shaped model of utils.BroadcastFlag / utils.Flag (utils/broadcastflag.go): a heap of
\* atomic booleans and of channels (closed or not), the broadcaster's current flag/signal and its mutex,
\* every Flag's private copies of the two pointers; one action per step that other goroutines can observe
\* (statements whose effect is visible under the mutex only are merged with the unlock).
\* NN notifier processes call NotifyAndReset, NO owner processes each use their own Flag (Refresh, IsSet,
\* a non-blocking receive from Signal()).  Call and return events feed the linearizability monitor USyncLin
\* over the sequential specification FlagStep (F1..F4): TLC checks for every interleaving that every
\* observed result is explained by some linearization, and that nothing can get stuck.
\*
\* Variant "real" is the code; "noreset" leaves out the reset in NotifyAndReset, "nolock" lets Refresh copy
\* the two pointers without the mutex: the monitor must reject both (model sensitivity).
EXTENDS USyncLin, TLC

CONSTANTS NN, NO, NCalls, OCalls, Variant

VARIABLES pc, left, cells, chans, bfF, bfS, mu, ownF, ownS, val, L
vars == <<pc, left, cells, chans, bfF, bfS, mu, ownF, ownS, val, L>>

P == 1..(NN + NO)
Notifiers == 1..NN
Owners == (NN + 1)..(NN + NO)
Fl(p) == p - NN               \* the Flag of owner p

\* NewBroadcastFlag: cell/chan 1; NewFlag of owner k: cell/chan k+1, set / closed
Init == /\ pc = [p \in P |-> "idle"]
        /\ left = [p \in P |-> IF p \in Notifiers THEN NCalls ELSE OCalls]
        /\ cells = [i \in 1..(NO + 1) |-> i > 1]
        /\ chans = [i \in 1..(NO + 1) |-> i > 1]
        /\ bfF = 1 /\ bfS = 1 /\ mu = 0
        /\ ownF = [p \in Owners |-> Fl(p) + 1]
        /\ ownS = [p \in Owners |-> Fl(p) + 1]
        /\ val = [p \in P |-> 0]
        /\ L = LInit("flag", FlagInit(NO), NN + NO)

Go(p, l) == pc' = [pc EXCEPT ![p] = l]

CallN(p) == /\ p \in Notifiers /\ pc[p] = "idle" /\ left[p] > 0
            /\ L' = LCall(L, p, Op("notify", 0))
            /\ Go(p, "n_lock")
            /\ UNCHANGED <<left, cells, chans, bfF, bfS, mu, ownF, ownS, val>>

CallO(p) == /\ p \in Owners /\ pc[p] = "idle" /\ left[p] > 0
            /\ \E o \in {"refresh", "isset", "poll"} :
                  /\ L' = LCall(L, p, Op(o, Fl(p)))
                  /\ Go(p, CASE o = "refresh" -> (IF Variant = "nolock" THEN "r_cf" ELSE "r_lock")
                             [] o = "isset" -> "i_read"
                             [] OTHER -> "p_read")
            /\ UNCHANGED <<left, cells, chans, bfF, bfS, mu, ownF, ownS, val>>

Lock(p, from, to) == /\ pc[p] = from /\ mu = 0 /\ mu' = p /\ Go(p, to)
                     /\ UNCHANGED <<left, cells, chans, bfF, bfS, ownF, ownS, val, L>>
Unlock(p, from, to) == /\ pc[p] = from /\ mu' = 0 /\ Go(p, to)
                       /\ UNCHANGED <<left, cells, chans, bfF, bfS, ownF, ownS, val, L>>

\* bf.flag.Set()
NSet(p) == /\ pc[p] = "n_set" /\ cells' = [cells EXCEPT ![bfF] = TRUE] /\ Go(p, "n_close")
           /\ UNCHANGED <<left, chans, bfF, bfS, mu, ownF, ownS, val, L>>
\* close(bf.signal)
NClose(p) == /\ pc[p] = "n_close" /\ chans' = [chans EXCEPT ![bfS] = TRUE]
             /\ Go(p, IF Variant = "noreset" THEN "n_unlock" ELSE "n_newf")
             /\ UNCHANGED <<left, cells, bfF, bfS, mu, ownF, ownS, val, L>>
\* bf.flag = abool.New() ; bf.signal = make(chan struct{}) ; unlock -- what is written here is read under the mutex only
NReset(p) == /\ pc[p] = "n_newf"
             /\ cells' = Append(cells, FALSE) /\ bfF' = Len(cells) + 1
             /\ chans' = Append(chans, FALSE) /\ bfS' = Len(chans) + 1
             /\ mu' = 0 /\ Go(p, "retn")
             /\ UNCHANGED <<left, ownF, ownS, val, L>>

\* f.flag = f.broadcaster.flag ; f.signal = f.broadcaster.signal ; unlock
RCopy(p) == /\ pc[p] = "r_copy"
            /\ ownF' = [ownF EXCEPT ![p] = bfF] /\ ownS' = [ownS EXCEPT ![p] = bfS]
            /\ mu' = 0 /\ Go(p, "retn")
            /\ UNCHANGED <<left, cells, chans, bfF, bfS, val, L>>
\* variant "nolock": the two copies without the mutex
RCopyF(p) == /\ pc[p] = "r_cf" /\ ownF' = [ownF EXCEPT ![p] = bfF] /\ Go(p, "r_cs")
             /\ UNCHANGED <<left, cells, chans, bfF, bfS, mu, ownS, val, L>>
RCopyS(p) == /\ pc[p] = "r_cs" /\ ownS' = [ownS EXCEPT ![p] = bfS] /\ Go(p, "retn")
             /\ UNCHANGED <<left, cells, chans, bfF, bfS, mu, ownF, val, L>>

\* f.flag.IsSet() ; select { case <-f.Signal(): ... default: }
IRead(p) == /\ pc[p] = "i_read" /\ val' = [val EXCEPT ![p] = IF cells[ownF[p]] THEN 1 ELSE 0] /\ Go(p, "retb")
            /\ UNCHANGED <<left, cells, chans, bfF, bfS, mu, ownF, ownS, L>>
PRead(p) == /\ pc[p] = "p_read" /\ val' = [val EXCEPT ![p] = IF chans[ownS[p]] THEN 1 ELSE 0] /\ Go(p, "retb")
            /\ UNCHANGED <<left, cells, chans, bfF, bfS, mu, ownF, ownS, L>>

Ret(p) == /\ pc[p] \in {"retn", "retb"}
          /\ L' = LRet(L, p, IF pc[p] = "retb" THEN Res("bool", val[p]) ELSE Res("ok", 0))
          /\ left' = [left EXCEPT ![p] = @ - 1]
          /\ Go(p, "idle")
          /\ UNCHANGED <<cells, chans, bfF, bfS, mu, ownF, ownS, val>>

Terminated == /\ \A p \in P : pc[p] = "idle" /\ left[p] = 0
              /\ UNCHANGED vars

Step(p) == \/ CallN(p) \/ CallO(p)
           \/ Lock(p, "n_lock", "n_set") \/ NSet(p) \/ NClose(p) \/ NReset(p) \/ Unlock(p, "n_unlock", "retn")
           \/ Lock(p, "r_lock", "r_copy") \/ RCopy(p) \/ RCopyF(p) \/ RCopyS(p)
           \/ IRead(p) \/ PRead(p) \/ Ret(p)

Next == (\E p \in P : Step(p)) \/ Terminated
Spec == Init /\ [][Next]_vars

Contract == L.bad = ""
====
