---- MODULE ApiEp ----
\* Extension check X07: API endpoints of package api (endpoints.go, request.go, modules.go, endpoints_meta.go):
\* what RegisterEndpoint accepts, and what an endpoint answers to an HTTP request that is permitted
\* (who may call an endpoint is property C12, the database API is C13).
\*
\* STATEMENT (derived from the doc comments of Endpoint, its fields, ActionFunc / DataFunc / StructFunc /
\* RecordFunc, ErrorWithStatus / HTTPStatusProvider, Request, RegisterEndpoint, ExportEndpoints,
\* GetEndpointByPath, moduleIsReady, the comments inside Endpoint.ServeHTTP / readBody and endpoints_test.go).
\* For every history of registrations, module state changes and requests:
\*  P1 validation: RegisterEndpoint fails with ErrInvalidEndpoint, and registers nothing, if the path is
\*     empty or blank or not a well-formed route template, if a permission lies outside Dynamic..PermitSelf,
\*     if a supported side (permission # NotSupported) names a method other than GET (read) resp.
\*     POST / PUT / DELETE (write), or if not exactly one function is set.  It fails with
\*     ErrAlreadyRegistered, and leaves the first registration untouched, if the path is registered already.
\*     Otherwise it returns nil.  ("Path and at least one permission are required" is contradicted by the
\*     package's own test, and the method of an unsupported side is not mentioned: both outcomes allowed.)
\*     Concurrent registrations behave like the same registrations in some order.
\*  P2 export: ExportEndpoints, the `endpoints` endpoint and GetEndpointByPath show exactly the endpoints
\*     registered successfully, each once, sorted by path, with the defaults filled in: ReadMethod GET and
\*     WriteMethod POST on supported sides, MimeType text/plain for Action / Data / Handler functions and
\*     application/json for Struct / Record functions.
\*  P3 routing: a request below /api/v1/ invokes the function of an endpoint whose path template matches the
\*     request path, exactly once, and no other function; the URL variables the function sees are the path
\*     segments at the template's parameters.  No matching endpoint: 404 and nothing is invoked.
\*  P4 methods: GET and HEAD use the read side, POST, PUT and DELETE the write side; a side whose permission
\*     is NotSupported answers 405; any other method answers 405; OPTIONS never invokes the function; the
\*     declared Read/WriteMethod "will only warn and not deny access".  In all these refusals nothing is invoked.
\*  P5 body: the function of a POST / PUT request sees exactly the request body in Request.InputData, and a
\*     HandlerFunc can read the same bytes again from the request; a request without a body has no input.
\*     A body larger than 20 MB (announced or not) is answered 413 and never handed to a function.
\*  P6 module: while the module an endpoint BelongsTo is not online (nor about to be) the answer is 503 and
\*     nothing is invoked; endpoints without a module are not affected.  A request that arrives while the
\*     module is starting waits for it (up to 10 s) and is served when it has come online in time.
\*  P7 answers of an invoked function:
\*     error          the status of the first HTTPStatusProvider in the error chain, else 500; the body is
\*                    the error text
\*     ActionFunc     200, the message with a trailing newline (exactly one, if it had none)
\*     DataFunc       200 and exactly the bytes; no bytes: 204 without body
\*     StructFunc     200 and the value serialised in the format the Accept header asks for (JSON without
\*                    one), Content-Type names the format; nil: 204.  An Accept header without a known
\*                    format: unspecified (error or JSON)
\*     RecordFunc     200 and the record as JSON including its metadata (_meta with the key), serialised
\*                    while the record is locked, unlocked afterwards; a nil record: 204 or 404, not a failure
\*     HandlerFunc    whatever the handler writes (TextResponse: 200, text/plain, the text and a newline)
\*     The Content-Type of a successful answer is the endpoint's MimeType unless the function set one through
\*     Request.ResponseHeader; headers set there are sent.  HEAD: like GET without body (200 or 204).
\*  Where this text is silent the model allows every outcome (sets of statuses / content types / bodies).
\*
\* Symbols: path ids 1..8 index Tpl (templates as sequences: n > 0 the literal segment n, -1 / -2 the
\* parameters {x} / {y}, -3 the trailing parameter {rest:.+}); the index order is the byte order of the path
\* strings; 0 is the empty path, -1 a blank path, 9 a template with unbalanced braces.
EXTENDS Integers, Sequences, FiniteSets, TLC

Tpl == << <<1>>, <<1, 2>>, <<1, -1>>, <<2>>, <<3, -1>>, <<3, -1, 4, -2>>, <<4, -1, -2>>, <<5, -3>> >>
NPaths == 8
PEmpty  == 0
PBlank  == -1
PBroken == 9
SegVals == 1..8

Range(s) == {s[i] : i \in 1..Len(s)}
SeqIsPermOfSet(s, S) == Len(s) = Cardinality(S) /\ Range(s) = S

\* ---------------------------------------------------------------- path templates
MatchTpl(t, s) == /\ Len(s) > 0
                  /\ IF t[Len(t)] = -3 THEN Len(s) >= Len(t) ELSE Len(s) = Len(t)
                  /\ \A i \in 1..Len(t) : t[i] > 0 => s[i] = t[i]
VarsOf(t, s) == {[n |-> -t[i], v |-> IF t[i] = -3 THEN SubSeq(s, i, Len(s)) ELSE <<s[i]>>]
                 : i \in {j \in 1..Len(t) : t[j] < 0}}

\* ---------------------------------------------------------------- state
\* regs: the endpoints registered successfully (normalised declarations), online: the module endpoints may belong to
Empty == [regs |-> {}, online |-> FALSE]

Kinds == {"action", "data", "struct", "record", "handler"}
NullD == [p |-> 0, fns |-> <<>>, rd |-> 0, wr |-> 0, rm |-> "", wm |-> "", mime |-> "", mod |-> 0]
NullQ == [m |-> "", acrm |-> "", segs |-> <<>>, accept |-> "", body |-> "none", beh |-> "val", code |-> 0,
          hdr |-> FALSE, ct |-> FALSE, tp |-> 0]
Op(name, d, q, on, via, p, ds) == [op |-> name, d |-> d, q |-> q, on |-> on, via |-> via, p |-> p, ds |-> ds]

Norm(d) == [p |-> d.p, kind |-> d.fns[1], rd |-> d.rd, wr |-> d.wr, rm |-> d.rm, wm |-> d.wm, mime |-> d.mime, mod |-> d.mod]
Registered(st, p) == \E e \in st.regs : e.p = p

\* ---------------------------------------------------------------- P1 registration
PermOK(x) == x \in -1..4
Hard(d) == \/ d.p \notin 1..NPaths
           \/ ~PermOK(d.rd) \/ ~PermOK(d.wr)
           \/ (d.rd # 0 /\ d.rm \notin {"", "GET"})
           \/ (d.wr # 0 /\ d.wm \notin {"", "POST", "PUT", "DELETE"})
           \/ Len(d.fns) # 1
Soft(d) == \/ (d.rd = 0 /\ d.wr = 0)
           \/ (d.rd = 0 /\ d.rm # "")
           \/ (d.wr = 0 /\ d.wm # "")
RegResults(st, d) ==
    IF Hard(d) THEN {"invalid"} \cup (IF Registered(st, d.p) THEN {"dup"} ELSE {})
    ELSE IF Registered(st, d.p) THEN {"dup"} \cup (IF Soft(d) THEN {"invalid"} ELSE {})
    ELSE {"ok"} \cup (IF Soft(d) THEN {"invalid"} ELSE {})
AfterReg(st, d, r) == IF r = "ok" THEN [st EXCEPT !.regs = @ \cup {Norm(d)}] ELSE st

Step(st, o) ==
    CASE o.op = "reg" -> {[res |-> r, st |-> AfterReg(st, o.d, r)] : r \in RegResults(st, o.d)}
      [] o.op = "mod" -> {[res |-> "ok", st |-> [st EXCEPT !.online = o.on]]}
      \* a request that arrives while the module starts (the start completes 30 ms later)
      [] o.op = "reqstart" -> {[res |-> "-", st |-> [st EXCEPT !.online = TRUE]]}
      [] OTHER -> {[res |-> "-", st |-> st]}

\* ---------------------------------------------------------------- P2 export
DefaultMime(kind) == IF kind \in {"struct", "record"} THEN "json" ELSE "text"
EntryOK(e, x) == /\ x.p = e.p /\ x.nm = e.p /\ x.rd = e.rd /\ x.wr = e.wr
                 /\ x.mime = (IF e.mime = "decl" THEN "decl" ELSE DefaultMime(e.kind))
                 /\ (e.rd # 0 => x.rm = "GET")
                 /\ (e.wr # 0 => x.wm = (IF e.wm = "" THEN "POST" ELSE e.wm))
ListOK(st, ob) == /\ ob.err = "" /\ ob.st = 200 /\ ob.ct = "json"
                  /\ Len(ob.entries) = Cardinality(st.regs)
                  /\ \A i \in 1..(Len(ob.entries) - 1) : ob.entries[i].p < ob.entries[i + 1].p
                  /\ \A i \in 1..Len(ob.entries) : \E e \in st.regs : EntryOK(e, ob.entries[i])
ByPathOK(st, p, found, x) == /\ found = Registered(st, p)
                             /\ (found => \E e \in st.regs : e.p = p /\ EntryOK(e, x))

\* the listing as the model would produce it (used by the laws)
RECURSIVE SortedSeq(_)
SortedSeq(S) == IF S = {} THEN <<>>
                ELSE LET m == CHOOSE x \in S : \A y \in S : x <= y IN <<m>> \o SortedSeq(S \ {m})
Export(e) == [p |-> e.p, nm |-> e.p, rd |-> e.rd, wr |-> e.wr,
              rm |-> IF e.rd # 0 THEN "GET" ELSE "",
              wm |-> IF e.wr # 0 THEN (IF e.wm = "" THEN "POST" ELSE e.wm) ELSE "",
              mime |-> IF e.mime = "decl" THEN "decl" ELSE DefaultMime(e.kind)]
Listing(st) == LET ps == SortedSeq({e.p : e \in st.regs})
               IN [i \in 1..Len(ps) |-> Export(CHOOSE e \in st.regs : e.p = ps[i])]

\* ---------------------------------------------------------------- P3..P7 requests
ReadM  == {"GET", "HEAD"}
WriteM == {"POST", "PUT", "DELETE"}
Eff(q) == IF q.m = "OPTIONS" THEN q.acrm ELSE q.m
Cls(q) == IF Eff(q) \in ReadM THEN "read" ELSE IF Eff(q) \in WriteM THEN "write" ELSE "none"
Over(q) == q.body \in {"overdecl", "overchunk"}

AnyCT   == {"text", "json", "cbor", "msgpack", "yaml", "decl", "fn", "none", "other"}
AnyBody == {"empty", "msgnl", "nlonly", "data", "errtext", "struct", "record", "recnometa", "hbody", "other"}

\* An outcome class: every field is the set of values allowed for the observation of the same name;
\* inv = 0: no function is invoked, inv = p: the function of endpoint p, exactly once.
Class(sts, cts, bodies, inv, inputs, rbodies, vars, xhs, rls) ==
    [st |-> sts, ct |-> cts, body |-> bodies, inv |-> inv, input |-> inputs, rbody |-> rbodies,
     vars |-> vars, xh |-> xhs, rl |-> rls, free |-> FALSE]
Refuse(sts) == Class(sts, AnyCT, AnyBody, 0, {"na"}, {"na"}, {}, {FALSE}, {"na"})
Free == [Refuse({0}) EXCEPT !.free = TRUE]     \* outside this statement (needs authentication: C12)

InputSet(q) == IF q.m \in {"POST", "PUT"} THEN (IF q.body = "none" THEN {"empty"} ELSE {"same"})
               ELSE IF q.body = "none" THEN {"empty"} ELSE {"empty", "same"}

Formats(a) == CASE a \in {"", "json", "wild", "bad"} -> {"json"}
                [] a = "cbor" -> {"cbor"}
                [] a = "msgpack" -> {"msgpack"}
                [] a = "yaml" -> {"yaml"}
                [] a = "multi" -> {"cbor", "json"}
                [] OTHER -> {}

Served(e, q) ==
    LET head == q.m = "HEAD"
        B(S) == IF head THEN {"empty"} ELSE S
        CT(S) == IF head THEN AnyCT ELSE S
        OKs == IF head THEN {200, 204} ELSE {200}
        declct == IF e.mime = "decl" THEN "decl" ELSE DefaultMime(e.kind)
        succct == IF q.ct THEN {"fn"} ELSE {declct}
        XH == IF q.hdr THEN {TRUE} ELSE {FALSE}
        XHany == IF q.hdr THEN {TRUE, FALSE} ELSE {FALSE}
        vars == VarsOf(Tpl[e.p], q.segs)
        isErr == q.beh \in {"err", "status", "wrap"}
        errcode == IF q.beh = "err" THEN 500 ELSE q.code
        none == q.beh \in {"empty", "nil"}
        F(sts, cts, bodies, xhs, rls) == Class(sts, cts, bodies, e.p, InputSet(q), {"na"}, vars, xhs, rls)
    IN  IF e.kind = "handler" THEN
            \* the harness handler: "nl" answers with api.TextResponse (request.go), errors write the code and a
            \* body, "empty" / "nil" write nothing, anything else writes a body
            {Class(IF isErr THEN {q.code} ELSE {200}, IF q.beh = "nl" THEN CT({"text"}) ELSE AnyCT,
                   IF none THEN {"empty"} ELSE IF q.beh = "nl" THEN B({"msgnl"}) ELSE B({"hbody"}),
                   e.p, InputSet(q), InputSet(q), vars, XH, {"na"})}
        ELSE IF isErr THEN
            {F({errcode}, CT({"text"} \cup (IF q.ct THEN {"fn"} ELSE {})), B({"errtext"}), XHany, {"na"})}
        ELSE CASE e.kind = "action" ->
                    IF none THEN {F(OKs \cup {204}, AnyCT, B({"nlonly", "empty"}), XH, {"na"})}
                    ELSE {F(OKs, CT(succct), B({"msgnl"}), XH, {"na"})}
               [] e.kind = "data" ->
                    IF none THEN {F({204}, AnyCT, {"empty"}, XH, {"na"})}
                    ELSE {F(OKs, CT(succct), B({"data"}), XH, {"na"})}
               [] e.kind = "struct" ->
                    IF q.beh = "nil" THEN {F({204}, AnyCT, {"empty"}, XH, {"na"})}
                    ELSE {F(OKs, CT(Formats(q.accept) \cup (IF e.mime = "decl" THEN {"decl"} ELSE {})
                                                        \cup (IF q.ct THEN {"fn"} ELSE {})), B({"struct"}), XH, {"na"})}
                         \cup (IF q.accept = "bad" THEN {F({500, 406, 415}, AnyCT, AnyBody, XHany, {"na"})} ELSE {})
               [] e.kind = "record" ->
                    IF q.beh = "nil" THEN {F({204, 404}, AnyCT, B(AnyBody), XHany, {"na"})}
                    ELSE {F(OKs, CT(succct), B({"record"}), XH, IF head THEN {"held", "unmarshalled"} ELSE {"held"})}

EpClasses(st, e, q) ==
    LET cls == Cls(q)
        perm == IF cls = "read" THEN e.rd ELSE e.wr
        offline == e.mod = 1 /\ ~st.online
        off == IF offline THEN {Refuse({503})} ELSE {}
        big == IF Over(q) THEN {Refuse({413})} ELSE {}
    IN  IF cls = "none" \/ perm = 0 THEN {Refuse({405})} \cup off \cup big
        ELSE IF perm \notin {-1, 1} THEN {Free}
        ELSE IF offline THEN off \cup big
        ELSE IF q.m = "OPTIONS" THEN {[Refuse({200, 204}) EXCEPT !.body = {"empty"}]}
        ELSE IF Over(q) THEN (IF q.m \in {"POST", "PUT"} THEN big ELSE {Free})
        ELSE Served(e, q)

Matching(st, q) == {e \in st.regs : MatchTpl(Tpl[e.p], q.segs)}
Classes(st, q) ==
    LET M == Matching(st, q) IN
    IF M = {} THEN {Refuse({404})} \cup (IF Cls(q) = "none" THEN {Refuse({405})} ELSE {})
                                   \cup (IF Over(q) THEN {Refuse({413})} ELSE {})
    ELSE UNION {EpClasses(st, e, q) : e \in M}

Fits(c, ob) == \/ c.free
               \/ /\ ob.err = ""
                  /\ ob.st \in c.st /\ ob.ct \in c.ct /\ ob.body \in c.body
                  /\ (IF c.inv = 0 THEN ob.inv = <<>> ELSE ob.inv = <<c.inv>>)
                  /\ ob.input \in c.input /\ ob.rbody \in c.rbody
                  /\ (c.inv # 0 => SeqIsPermOfSet(ob.vars, c.vars))
                  /\ ob.xh \in c.xh /\ ob.rl \in c.rl
ReqOK(st, q, ob) == \E c \in Classes(st, q) : Fits(c, ob)

\* ---------------------------------------------------------------- laws of the model (checked by TLC)
RegsUnique(st) == \A e, f \in st.regs : e.p = f.p => e = f
RegsValid(st) == \A e \in st.regs : e.p \in 1..NPaths /\ e.kind \in Kinds /\ PermOK(e.rd) /\ PermOK(e.wr)
ListingLaw(st) == ListOK(st, [err |-> "", st |-> 200, ct |-> "json", entries |-> Listing(st)])
RegLaw(st, d) == /\ RegResults(st, d) # {}
                 /\ \A x \in Step(st, Op("reg", d, NullQ, FALSE, "", 0, <<>>)) :
                       /\ (x.res # "ok" => x.st = st)
                       /\ (x.res = "ok" => /\ ~Registered(st, d.p) /\ Registered(x.st, d.p)
                                           /\ Cardinality(x.st.regs) = Cardinality(st.regs) + 1)
                       /\ (Registered(st, d.p) => x.res # "ok")
\* the response table is total and consistent with the statement
TableLaw(st, q) ==
    LET C == Classes(st, q) IN
    /\ C # {}
    /\ \A c \in C : c.free \/
          /\ c.st # {} /\ c.ct # {} /\ c.body # {} /\ c.input # {} /\ c.rbody # {} /\ c.xh # {} /\ c.rl # {}
          /\ (c.inv = 0 => c.input = {"na"} /\ c.xh = {FALSE} /\ c.st \subseteq {200, 204, 404, 405, 413, 503})
          \* P3/P4/P6: a function runs only for a matching endpoint, on a supported side, with its module online
          /\ (c.inv # 0 => \E e \in Matching(st, q) :
                              /\ e.p = c.inv /\ Cls(q) # "none" /\ q.m # "OPTIONS" /\ ~Over(q)
                              /\ (IF Cls(q) = "read" THEN e.rd ELSE e.wr) \in {-1, 1}
                              /\ (e.mod = 1 => st.online)
                              /\ c.vars = VarsOf(Tpl[e.p], q.segs)
                              \* P7 error mapping
                              /\ (e.kind # "handler" /\ q.beh \in {"status", "wrap"} => c.st = {q.code})
                              /\ (e.kind # "handler" /\ q.beh = "err" => c.st = {500}))
          /\ (q.m = "HEAD" => c.inv = 0 \/ c.body = {"empty"})
          /\ (c.st = {204} => c.inv = 0 \/ c.body \subseteq {"empty"})
          \* P5: a function of a POST/PUT request with a body sees exactly that body
          /\ (c.inv # 0 /\ q.m \in {"POST", "PUT"} /\ q.body # "none" => c.input = {"same"})
    /\ (Matching(st, q) = {} => \A c \in C : c.inv = 0)
====
