---- MODULE ApiBrTrace ----
\* Validates what the Go api package did (driver harness/cmd/apibr) against spec/ApiBr.tla (X10).
\* trace.ndjson, one JSON object per line; every event but "new" carries "op", the operation of the script:
\*   {"e":"new"}                              start of a history: dev mode off, no subscription, no session cookie
\*   {"e":"dev"|"sub"|"unsub","op":{..}}      configuration / subscription change (always succeeds)
\*   {"e":"login","op":{..},"ob":{code,cookie}}   HTTP request with credentials: was a session cookie issued
\*   {"e":"call","op":{..},"ob":{..}}         one call through the bridge or over HTTP
\*   {"e":"pair","op":{..},"b":{..},"w":{..},"same":bool,"samect":bool}   the same request both ways
EXTENDS ApiBr, Json

Trace == ndJsonDeserialize("trace.ndjson")

VARIABLES st, l
vars == <<st, l>>

Init == st = Empty /\ l = 1

Ev == Trace[l]
At(kind) == l <= Len(Trace) /\ Trace[l].e = kind

New == /\ At("new")
       /\ st' = Empty
       /\ l' = l + 1

Conf == /\ (At("dev") \/ At("sub") \/ At("unsub"))
        /\ Ev.ok
        /\ st' = After(st, Ev.op)
        /\ l' = l + 1

Login == /\ At("login")
         /\ LoginOK(st, Ev.op, Ev.ob)
         /\ st' = After(st, Ev.op)
         /\ l' = l + 1

Call == /\ At("call")
        /\ CallOK(st, Ev.op, Ev.ob)
        /\ st' = After(st, Ev.op)
        /\ l' = l + 1

Pair == /\ At("pair")
        /\ PairOK(st, Ev.op, Ev.b, Ev.w, Ev.same, Ev.samect)
        /\ st' = After(st, Ev.op)
        /\ l' = l + 1

\* {"e":"wsprobe","ob":{plain,secret,crown,q}}   the database endpoint asked over a websocket connection from loopback
WsProbe == /\ At("wsprobe")
           /\ WsProbeOK(Ev.ob)
           /\ UNCHANGED st
           /\ l' = l + 1

Next == New \/ Conf \/ Login \/ Call \/ Pair \/ WsProbe
Spec == Init /\ [][Next]_vars

Accepted == TLCGet("stats").diameter - 1 = Len(Trace)
====
