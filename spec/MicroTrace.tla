---- MODULE MicroTrace ----
EXTENDS MicroAbs, Json
Trace == ndJsonDeserialize("trace.ndjson")
VARIABLE l
tvars == <<avars, l>>
Ev == Trace[l]
TInit == AbsInit /\ l = 1
TNext == /\ l <= Len(Trace)
         /\ l' = l + 1
         /\ CASE Ev.e = "init"   -> Reset(Ev.ids, Ev.prios, Ev.outs, Ev.limit, Ev.expiry)
              [] Ev.e = "mbegin" -> Begin(Ev.i, Ev.t)
              [] Ev.e = "mend"   -> End(Ev.i, Ev.t)
              [] Ev.e = "mret"   -> Ret(Ev.i, Ev.class)
              [] Ev.e = "done"   -> Done(Ev.i, Ev.n)
              [] Ev.e = "final"  -> Final(Ev.modCount, Ev.t)
              [] Ev.e = "idleprobe" -> IdleProbe(Ev.ms)
              [] Ev.e = "probe"  -> ProbeAdmitted(Ev.ms)
              [] Ev.e = "held"   -> ProbeHeld(Ev.held)
              [] Ev.e = "stopret" -> StopRet(Ev.ok, Ev.t0, Ev.t)
              [] Ev.e = "note"   -> UNCHANGED avars
              [] OTHER           -> FALSE
Spec == TInit /\ [][TNext]_tvars
Accepted == TLCGet("stats").diameter - 1 = Len(Trace)
====
