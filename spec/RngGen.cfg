SPECIFICATION Spec
INVARIANT Laws
CHECK_DEADLOCK FALSE
