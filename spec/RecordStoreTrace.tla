---- MODULE RecordStoreTrace ----
\* Judges histories recorded from real database interfaces (driver harness/cmd/dbx: every storage backend,
\* both delete modes, with and without caches) against spec/RecordStore.tla (property C02).
\* trace.ndjson, one JSON object per line:
\*   {"e":"reset", ...}                                       start of a recorded history: the store is empty
\*   {"e":"op","op":{...},"t0":a,"t1":b,"res":{...}}         one call: the operation (expiry arguments as absolute
\*        times), the clock (seconds) before and after the call, and what the call answered:
\*        err (nil / notfound / perm / notimpl / other), flag (Get: found, Exists: answer), n (Purge: count),
\*        items (records returned: key, d = fields read as a typed struct, j = fields read from the serialized
\*        form, cr, mo, exp, rel, sec, cj), iterr (Iterator.Err() after the stream ended), pb / pa (keys
\*        physically stored before / after a maintenance call), panic.
\* One TLC state per line and possible model state; the clock value of a call is any second between t0 and t1.
\* A history is rejected when no model state is left that allows the recorded answer.
EXTENDS RecordStore, Json

Trace == ndJsonDeserialize("trace.ndjson")

VARIABLES l, st
vars == <<l, st>>

Init == l = 1 /\ st = Empty

Reset == /\ l <= Len(Trace) /\ Trace[l].e = "reset"
         /\ st' = Empty
         /\ l' = l + 1

DoOp == /\ l <= Len(Trace) /\ Trace[l].e = "op"
        /\ \E t \in Trace[l].t0..Trace[l].t1 : \E s2 \in Post(st, Trace[l].op, t, Trace[l].res, Trace[l].t1) : st' = s2
        /\ l' = l + 1

\* a batch that was being written while the clock moved on: the records before some position carry an earlier second than
\* the records behind it (each record is stamped when the backend stores it)
DoSplitBatch ==
        /\ l <= Len(Trace) /\ Trace[l].e = "op" /\ Trace[l].op.op = "PutMany" /\ Trace[l].t0 < Trace[l].t1
        /\ \E j \in 1..(Len(Trace[l].op.batch) - 1) : \E ta \in Trace[l].t0..(Trace[l].t1 - 1) : \E tb \in (ta + 1)..Trace[l].t1 :
              LET o == Trace[l].op
                  oa == [o EXCEPT !.batch = SubSeq(o.batch, 1, j)]
                  ob == [o EXCEPT !.batch = SubSeq(o.batch, j + 1, Len(o.batch))]
              IN \E s1 \in Post(st, oa, ta, Trace[l].res, Trace[l].t1) : \E s2 \in Post(s1, ob, tb, Trace[l].res, Trace[l].t1) : st' = s2
        /\ l' = l + 1

Next == Reset \/ DoOp \/ DoSplitBatch
Spec == Init /\ [][Next]_vars

Accepted == TLCGet("stats").diameter - 1 = Len(Trace)
====
