---- MODULE AtomicFileTrace ----
\* Validates what the real atomic-replace primitives did (C17) against the file-system model of AtomicFile.
\* trace.ndjson, one JSON object per line:
\*  {"e":"new","kind":..,"size":n,"entries":n,"old":"absent"|"old","osize":n,"dest":[components]}
\*        one run of `atomicw write` under strace starts (a complete run, a run killed before its k-th
\*        mutating system call, or a run in which that call was made to fail)
\*  {"e":"sys","op":..,"path":[..],"loc":..,"path2":[..],"loc2":..,"n":n,"ok":b,"creat":b,"trunc":b,"tgt":..}
\*        one file-system call of the writer (from the strace log), in program order; ok = it took effect.
\*        Replayed on the model; the state it leads to must satisfy DestOK, DurableOK and TempLocOK:
\*        a write into the destination, a rename of a temp file that was not fsynced, a temp file
\*        outside the allowed locations are rejections.
\*  {"e":"obs","dest":"absent"|"old"|"new"|"other","strays":{"tmp":n,"sib":n,"parent":n,"other":n}}
\*        the real directory tree after the run ended or was killed: the destination must be old or new and
\*        nothing may be left outside the temporary locations; it should also be exactly what the model
\*        derived from the system calls (otherwise "drift": conformance of the model, not a verdict).
\*  {"e":"read","lo":a,"hi":b,"seen":g}
\*        a concurrent reader read the destination while replacements a+1..b could be in flight
\*        (a finished before the read began, b started before it ended) and found the complete content
\*        of generation g (-1: no file although one was published, -2: none of the generations).
\* A rejected event is reported (`@@` line: index of the trace line and the violated invariant) and the rest of
\* that run is skipped, so that one TLC pass judges all runs; TLC registers 42 / 43 count the rejections and the
\* runs in which the model and the observed tree differ without the property being violated ("drift":
\* a defect of the model or the converter, never a verdict).  Accepted = every line consumed, no rejection, no drift.
EXTENDS AtomicFile, Json

Trace == ndJsonDeserialize("trace.ndjson")

VARIABLES l,     \* next trace line
          bad    \* the current run has been rejected: its remaining lines are skipped
vars == <<ns, objs, ddest, pend, cfg, l, bad>>

NoCfg == [dest |-> <<"-">>, kind |-> "file", size |-> 0, entries |-> 1, old |-> "absent"]

Init == l = 1 /\ bad = FALSE /\ InitFS(NoCfg, 0) /\ TLCSet(42, 0) /\ TLCSet(43, 0)

Snapshot == [view |-> DestView, tmp |-> Strays("tmp"), sib |-> Strays("sib"),
             parent |-> Strays("parent"), other |-> Strays("other")]
Report(kind, why, reg, snap) == /\ PrintT(<<"@@", ToJson([line |-> l, kind |-> kind, why |-> why, model |-> snap])>>)
                                /\ TLCSet(reg, TLCGet(reg) + 1)

New == /\ l <= Len(Trace) /\ Trace[l].e = "new"
       /\ LET ev == Trace[l]
              c == [dest |-> ev.dest, kind |-> ev.kind, size |-> ev.size, entries |-> ev.entries, old |-> ev.old] IN
          /\ cfg' = c
          /\ IF c.old = "old"
             THEN /\ ns' = (c.dest :> [o |-> 1, loc |-> "dest"])
                  /\ objs' = (1 :> [kind |-> c.kind, gen |-> "old", len |-> ev.osize, dlen |-> ev.osize, tgt |-> "old"])
                  /\ ddest' = 1
             ELSE /\ ns' = Empty /\ objs' = Empty /\ ddest' = 0
          /\ pend' = <<>>
       /\ l' = l + 1 /\ bad' = FALSE

Apply(ev) ==
    CASE ev.op = "open"    -> OpenW(ev.path, ev.loc, ev.creat, ev.trunc)
      [] ev.op = "write"   -> Write(ev.path, ev.n)
      [] ev.op = "trunc"   -> Trunc(ev.path, ev.n)
      [] ev.op = "fsync"   -> Fsync(ev.path)
      [] ev.op = "rename"  -> Rename(ev.path, ev.path2, ev.loc2)
      [] ev.op = "unlink"  -> Unlink(ev.path)
      [] ev.op = "mkdir"   -> IF ev.path \in DOMAIN ns THEN Nop ELSE Create(ev.path, ev.loc, "dir", "")
      [] ev.op = "symlink" -> IF ev.path \in DOMAIN ns THEN Nop ELSE Create(ev.path, ev.loc, "link", ev.tgt)
      [] ev.op \in {"close", "chmod"} -> Nop     \* no effect on names or content

Why == IF ~DestOK THEN "DestOK" ELSE IF ~DurableOK THEN "DurableOK" ELSE IF ~TempLocOK THEN "TempLocOK" ELSE "-"

Skip == /\ l <= Len(Trace) /\ bad /\ Trace[l].e # "new"
        /\ l' = l + 1 /\ UNCHANGED <<ns, objs, ddest, pend, cfg, bad>>

Sys == /\ l <= Len(Trace) /\ ~bad /\ Trace[l].e = "sys"
       /\ IF Trace[l].ok THEN Apply(Trace[l]) ELSE Nop
       /\ IF Safe' THEN bad' = FALSE ELSE Report("reject", Why', 42, Snapshot') /\ bad' = TRUE
       /\ l' = l + 1

ObsProperty(ev) == ev.dest \in Allowed /\ ev.strays.other = 0
ObsConforms(ev) == /\ ev.dest = (IF DestView = "frag" THEN "other" ELSE DestView)
                   /\ ev.strays.tmp = Strays("tmp") /\ ev.strays.sib = Strays("sib")
                   /\ ev.strays.parent = Strays("parent") /\ ev.strays.other = Strays("other")

Obs == /\ l <= Len(Trace) /\ ~bad /\ Trace[l].e = "obs"
       /\ IF ~ObsProperty(Trace[l]) THEN Report("reject", "Observed", 42, Snapshot) /\ bad' = TRUE
          ELSE IF ~ObsConforms(Trace[l]) THEN Report("drift", "Conformance", 43, Snapshot) /\ bad' = FALSE
          ELSE bad' = FALSE
       /\ l' = l + 1 /\ UNCHANGED fsvars

\* a read is reported and the run goes on: every bad read of a run is listed
Read == /\ l <= Len(Trace) /\ ~bad /\ Trace[l].e = "read"
        /\ IF Trace[l].seen >= Trace[l].lo /\ Trace[l].seen <= Trace[l].hi THEN TRUE
           ELSE Report("reject", "ReaderOK", 42, Snapshot)
        /\ l' = l + 1 /\ UNCHANGED <<ns, objs, ddest, pend, cfg, bad>>

Next == New \/ Skip \/ Sys \/ Obs \/ Read
Spec == Init /\ [][Next]_vars

Accepted == TLCGet("stats").diameter - 1 = Len(Trace) /\ TLCGet(42) = 0 /\ TLCGet(43) = 0
====
