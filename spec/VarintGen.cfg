SPECIFICATION Spec
INVARIANT RoundTrip
INVARIANT TooLargeIsError
INVARIANT ShortestLen
INVARIANT ConsumedInside
INVARIANT BlockInside
CHECK_DEADLOCK FALSE
