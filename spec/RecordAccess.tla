---- MODULE RecordAccess ----
\* One portbase database seen through its interfaces (properties C03 and C14).
\*
\* C03  secret / crown-jewel records never cross a non-privileged interface:
\*        Permitted(r, i) == (~r.sec \/ i.internal) /\ (~r.crown \/ i.local)
\*      nothing that is delivered to interface i (get result, query item, feed item, database-API reply)
\*      is a record with ~Permitted, and no call of i changes such a record; `Exists` may say true.
\* C14  a successful write/delete is delivered, in write order, to exactly the active subscriptions whose
\*      owner may see the record and whose query matches; nothing after cancel; hooks are called in
\*      registration order for exactly the matching get/put, may replace the record or veto the call.
\*
\* `Step(st, o, loose)` is the SET of allowed outcomes [res, st, feeds, calls, ...] of one call `o` in state
\* `st`.  The same definition generates histories (RecordAccessGen), is model-checked against independent
\* formulations of the two properties (RecordAccessGen: laws) and judges what the Go code did
\* (RecordAccessTrace).  Where the properties are silent the set has several elements; in particular every
\* call may fail with an error of class "other" if it leaves everything unchanged (optional capabilities
\* of a backend: Purge, PutMany, Delete on an injected database, ...).
\*
\* Symbolic domains (the driver harness/cmd/dbacc maps them to concrete values):
\*   keys 1..4      = "a/x", "a/y", "b/z", "ab"     as code sequences (a=1 b=2 /=3 x=4 y=5 z=6)
\*   prefixes 1..5  = "", "a", "a/", "a/x", "b/"
\*   record content = field N \in 1..3 (7 = content substituted by a `replace` hook), field S = the key text
\*   conditions 1..7 over N and S (CondDef), evaluated by spec/QuerySem.tla
\*   interfaces 1..4 = (local, internal) \in {(F,F), (T,F), (F,T), (T,T)};  the database API acts as interface 1
EXTENDS Integers, Sequences, FiniteSets, TLC

Q == INSTANCE QuerySem

Keys == 1..4
KeyStr == << <<1, 3, 4>>, <<1, 3, 5>>, <<2, 3, 6>>, <<1, 2>> >>
Pfxs == 1..5
PfxStr == << <<>>, <<1>>, <<1, 3>>, <<1, 3, 4>>, <<2, 3>> >>
Conds == 1..7
CondDef == << Q!NoCondition,
              Q!Leaf("N", "gt", Q!IntV(1)),
              Q!Leaf("N", "eq", Q!IntV(1)),
              Q!Not(Q!Leaf("N", "ge", Q!IntV(2))),
              Q!Or(<<Q!Leaf("N", "eq", Q!IntV(1)), Q!Leaf("N", "eq", Q!IntV(3))>>),
              Q!Leaf("S", "endswith", Q!StrV(<<4>>)),
              Q!And(<<Q!Leaf("S", "startswith", Q!StrV(<<1>>)), Q!Leaf("N", "lt", Q!IntV(3))>>) >>
Subst == 7            \* content written by a `replace` hook
FeedCap == 1000       \* buffer of a subscription feed; sends are non-blocking: drops are allowed when it is full

QRec(k, n) == << Q!Field("N", Q!IntV(n)), Q!Field("S", Q!StrV(KeyStr[k])) >>
KeyMatch(p, k) == Q!IsPrefix(PfxStr[p], KeyStr[k])
CondMatch(c, k, n) == c = 1 \/ Q!Matches(CondDef[c], QRec(k, n))

Ifaces == 1..4
IfLoc == <<FALSE, TRUE, FALSE, TRUE>>
IfInt == <<FALSE, FALSE, TRUE, TRUE>>
Full == 4
Permitted(r, loc, int) == (~r.sec \/ int) /\ (~r.crown \/ loc)
MayI(r, i) == Permitted(r, IfLoc[i], IfInt[i])

NS == 3      \* subscription slots
NH == 2      \* hook slots
Slots == 1..NS
HSlots == 1..NH
Phases == <<"preGet", "postGet", "prePut">>

Range(s) == {s[j] : j \in DOMAIN s}
InSeq(x, s) == \E j \in DOMAIN s : s[j] = x
MinOf(a, b) == IF a < b THEN a ELSE b
RECURSIVE IsSubSeq(_, _)
IsSubSeq(a, b) == IF a = <<>> THEN TRUE
                  ELSE IF b = <<>> THEN FALSE
                  ELSE IF Head(a) = Head(b) THEN IsSubSeq(Tail(a), Tail(b)) ELSE IsSubSeq(a, Tail(b))

\* ---------------------------------------------------------------- shapes
Absent == [present |-> FALSE, n |-> 0, sec |-> FALSE, crown |-> FALSE, exp |-> FALSE]
Rec(n, sec, crown, exp) == [present |-> TRUE, n |-> n, sec |-> sec, crown |-> crown, exp |-> exp]
View(k, r, del) == [k |-> k, n |-> r.n, sec |-> r.sec, crown |-> r.crown, exp |-> r.exp, del |-> del]
NoView == [k |-> 0, n |-> 0, sec |-> FALSE, crown |-> FALSE, exp |-> FALSE, del |-> FALSE]

NoSub == [used |-> FALSE, active |-> FALSE, lazy |-> FALSE, p |-> 1, c |-> 1, loc |-> FALSE, int |-> FALSE, acc |-> <<>>]
NoHook == [used |-> FALSE, active |-> FALSE, p |-> 1, c |-> 1, ph |-> <<>>, beh |-> "pass"]
InitState == [store |-> [k \in Keys |-> Absent], subs |-> [s \in Slots |-> NoSub],
              hooks |-> [h \in HSlots |-> NoHook], horder |-> <<>>,
              pend |-> <<>>]       \* writes accepted by interfaces with a delayed write cache, not flushed yet

\* one call.  via: "if" (database.Interface) | "api" (DatabaseAPI message; acts as interface 1) | "db" (the
\* injected database itself pushes an update).  q = index of the query OBJECT used (two subscriptions or hooks
\* may share one object: the model does not care), p/c = its prefix and condition.
Op(name, via, i, k, n, sec, crown, q, p, c, slot, ph, beh, batch, cnt) ==
    [op |-> name, via |-> via, i |-> i, k |-> k, n |-> n, sec |-> sec, crown |-> crown, q |-> q, p |-> p, c |-> c,
     slot |-> slot, ph |-> ph, beh |-> beh, batch |-> batch, cnt |-> cnt]
BatchItem(k, n, sec, crown) == [k |-> k, n |-> n, sec |-> sec, crown |-> crown]

\* result of a call: err \in {"ok", "notfound", "denied", "veto", "other"}; rec = record returned by a get;
\* items = records of a query; flag = answer of Exists; cnt = number of purged records; vh = vetoing hook
ResOf(err, rec, items, flag, cnt, vh) == [err |-> err, rec |-> rec, items |-> items, flag |-> flag, cnt |-> cnt, vh |-> vh]
OkRes == ResOf("ok", NoView, {}, FALSE, 0, 0)
ErrRes(e) == ResOf(e, NoView, {}, FALSE, 0, 0)
VetoRes(h) == ResOf("veto", NoView, {}, FALSE, 0, h)

\* outcome: feeds[s] = what subscription slot s received during the call (feeds are drained after every call)
\* and whether its feed is closed; calls = hook calls in order; lazyslot = slot whose (API) feed is reported now
\* and may be any subsequence of `items` (replies are sent by another goroutine: completeness is not judged
\* there, C13 does); loosecalls = the call failed half way: the hook calls are a prefix of `calls`.
Out(res, st, feeds, calls) == [res |-> res, st |-> st, feeds |-> feeds, calls |-> calls, lazyslot |-> 0, loosecalls |-> FALSE]
Call(h, ph, k) == [h |-> h, ph |-> ph, k |-> k]

\* ---------------------------------------------------------------- subscriptions
Wants(S, w) == /\ S.active /\ Permitted(w, S.loc, S.int)
               /\ KeyMatch(S.p, w.k) /\ CondMatch(S.c, w.k, w.n)
Closed(S) == S.used /\ ~S.active
\* ws: the records written by the call, in order
FeedsOf(st, ws) == [s \in Slots |-> [items |-> IF st.subs[s].lazy THEN <<>> ELSE SelectSeq(ws, LAMBDA w : Wants(st.subs[s], w)),
                                     closed |-> Closed(st.subs[s])]]
SubsAfter(st, ws) == [s \in Slots |-> IF st.subs[s].lazy /\ st.subs[s].active
                                      THEN [st.subs[s] EXCEPT !.acc = @ \o SelectSeq(ws, LAMBDA w : Wants(st.subs[s], w))]
                                      ELSE st.subs[s]]
Quiet(st) == FeedsOf(st, <<>>)
Written(st, store2, ws, res, calls) == Out(res, [st EXCEPT !.store = store2, !.subs = SubsAfter(st, ws)], FeedsOf(st, ws), calls)

\* ---------------------------------------------------------------- hooks
\* runs the hooks of one phase in registration order from position j; r is the record in flight
RECURSIVE RunHooks(_, _, _, _, _, _)
RunHooks(phase, st, k, r, j, calls) ==
    IF j > Len(st.horder) THEN [calls |-> calls, veto |-> 0, r |-> r]
    ELSE LET h == st.horder[j]
             H == st.hooks[h]
             applies == /\ H.active /\ InSeq(phase, H.ph) /\ KeyMatch(H.p, k)
                        /\ (phase = "preGet" \/ CondMatch(H.c, k, r.n))
         IN IF ~applies THEN RunHooks(phase, st, k, r, j + 1, calls)
            ELSE LET c2 == Append(calls, Call(h, phase, k))
                 IN IF H.beh = "veto" THEN [calls |-> c2, veto |-> h, r |-> r]
                    ELSE IF H.beh = "replace" /\ phase # "preGet"
                         THEN RunHooks(phase, st, k, [r EXCEPT !.n = Subst], j + 1, c2)
                         ELSE RunHooks(phase, st, k, r, j + 1, c2)

\* loading a record through the controller: pre-get hooks, storage, post-get hooks
GetPhase(st, k) ==
    LET a == RunHooks("preGet", st, k, Absent, 1, <<>>) IN
    IF a.veto # 0 THEN [calls |-> a.calls, veto |-> a.veto, found |-> FALSE, r |-> Absent]
    ELSE IF ~st.store[k].present THEN [calls |-> a.calls, veto |-> 0, found |-> FALSE, r |-> Absent]
    ELSE LET b == RunHooks("postGet", st, k, st.store[k], 1, a.calls)
         IN [calls |-> b.calls, veto |-> b.veto, found |-> TRUE, r |-> b.r]

\* storing (del = FALSE) or deleting (del = TRUE) record r under key k: pre-put hooks, storage, notification
PutPhase(st, k, r, del, calls0) ==
    LET a == RunHooks("prePut", st, k, r, 1, calls0) IN
    IF a.veto # 0 THEN {Out(VetoRes(a.veto), st, Quiet(st), a.calls)}
    ELSE LET store2 == [st.store EXCEPT ![k] = IF del THEN Absent ELSE a.r]
         IN {Written(st, store2, <<View(k, a.r, del)>>, OkRes, a.calls)}

\* an interface that may not see the record learns at most that the key exists
DeniedOut(st, calls) == {Out(ErrRes(e), st, Quiet(st), calls) : e \in {"denied", "notfound"}}

\* get-modify-put calls (InsertValue, expiry and flag setters, Delete)
Mutate(st, o, F(_), del) ==
    LET g == GetPhase(st, o.k) IN
    IF g.veto # 0 THEN {Out(VetoRes(g.veto), st, Quiet(st), g.calls)}
    ELSE IF ~g.found THEN {Out(ErrRes("notfound"), st, Quiet(st), g.calls)}
    ELSE IF ~MayI(g.r, o.i) THEN DeniedOut(st, g.calls)
    ELSE PutPhase(st, o.k, F(g.r), del, g.calls)

\* records an interface gets from a query
Visible(st, i, p, c, loose) ==
    {k \in Keys : /\ st.store[k].present /\ MayI(st.store[k], i)
                  /\ (loose \/ KeyMatch(p, k)) /\ CondMatch(c, k, st.store[k].n)}
ViewsOf(st, K) == {View(k, st.store[k], FALSE) : k \in K}
\* loose: a backend whose key-prefix handling is judged elsewhere (fstree, C02) may return any permitted
\* matching records of the database
QuerySets(st, o, loose) ==
    IF loose THEN {ViewsOf(st, K) : K \in SUBSET Visible(st, o.i, o.p, o.c, TRUE)}
    ELSE {ViewsOf(st, Visible(st, o.i, o.p, o.c, FALSE))}

RECURSIVE Perms(_)
Perms(S) == IF S = {} THEN {<<>>} ELSE UNION {{<<x>> \o t : t \in Perms(S \ {x})} : x \in S}

RECURSIVE ApplyBatch(_, _)
ApplyBatch(store, b) == IF b = <<>> THEN store
                        ELSE ApplyBatch([store EXCEPT ![Head(b).k] = Rec(Head(b).n, Head(b).sec, Head(b).crown, FALSE)], Tail(b))
BatchViews(b) == [j \in 1..Len(b) |-> View(b[j].k, Rec(b[j].n, b[j].sec, b[j].crown, FALSE), FALSE)]
\* outcomes of flushing the pending writes q of interface i over the store: [s: store afterwards, w: views written]
RECURSIVE FlushOut(_, _, _)
FlushOut(store, q, i) ==
    IF q = <<>> THEN {[s |-> store, w |-> <<>>]}
    ELSE LET e == Head(q)
             drop == FlushOut(store, Tail(q), i)
             take == {[s |-> x.s, w |-> <<View(e.k, e.r, FALSE)>> \o x.w] : x \in FlushOut([store EXCEPT ![e.k] = e.r], Tail(q), i)}
         IN IF ~store[e.k].present \/ MayI(store[e.k], i) THEN drop \cup take ELSE drop
BurstViews(o) == [j \in 1..o.cnt |-> View(o.k, Rec(1 + (j % 3), o.sec, o.crown, FALSE), FALSE)]

\* ---------------------------------------------------------------- the reference semantics
Strict(st, o, loose) ==
  CASE o.op = "Get" ->
        LET g == GetPhase(st, o.k) IN
        IF g.veto # 0 THEN {Out(VetoRes(g.veto), st, Quiet(st), g.calls)}
        ELSE IF ~g.found THEN {Out(ErrRes("notfound"), st, Quiet(st), g.calls)}
        ELSE IF ~MayI(g.r, o.i) THEN DeniedOut(st, g.calls)
        ELSE {Out(ResOf("ok", View(o.k, g.r, FALSE), {}, FALSE, 0, 0), st, Quiet(st), g.calls)}
    [] o.op = "Exists" ->
        LET g == GetPhase(st, o.k) IN
        IF g.veto # 0 THEN {Out(VetoRes(g.veto), st, Quiet(st), g.calls)}
        ELSE IF ~g.found THEN {Out(ResOf("ok", NoView, {}, FALSE, 0, 0), st, Quiet(st), g.calls)}
        ELSE IF ~MayI(g.r, o.i) THEN {Out(ResOf("ok", NoView, {}, b, 0, 0), st, Quiet(st), g.calls) : b \in BOOLEAN}
        ELSE {Out(ResOf("ok", NoView, {}, TRUE, 0, 0), st, Quiet(st), g.calls)}
    [] o.op \in {"Put", "PutNew"} ->
        IF st.store[o.k].present /\ ~MayI(st.store[o.k], o.i) THEN DeniedOut(st, <<>>)
        ELSE PutPhase(st, o.k, Rec(o.n, o.sec, o.crown, FALSE), FALSE, <<>>)
    [] o.op = "InsertValue" -> Mutate(st, o, LAMBDA r : [r EXCEPT !.n = o.n], FALSE)
    [] o.op \in {"SetAbsoluteExpiry", "SetRelativeExpiry"} -> Mutate(st, o, LAMBDA r : [r EXCEPT !.exp = TRUE], FALSE)
    [] o.op = "MakeSecret" -> Mutate(st, o, LAMBDA r : [r EXCEPT !.sec = TRUE], FALSE)
    [] o.op = "MakeCrownJewel" -> Mutate(st, o, LAMBDA r : [r EXCEPT !.crown = TRUE], FALSE)
    [] o.op = "Delete" -> Mutate(st, o, LAMBDA r : r, TRUE)
    [] o.op = "Query" ->
        {Out(ResOf("ok", NoView, S, FALSE, 0, 0), st, Quiet(st), <<>>) : S \in QuerySets(st, o, loose)}
    [] o.op = "Purge" ->
        \* bulk delete: whether subscribers are told is left open (the storage layer does it, no hooks either)
        LET D == Visible(st, o.i, o.p, o.c, FALSE)
            store2 == [k \in Keys |-> IF k \in D THEN Absent ELSE st.store[k]]
            res == ResOf("ok", NoView, {}, FALSE, Cardinality(D), 0)
        IN {Written(st, store2, <<>>, res, <<>>)}
           \cup {Written(st, store2, [j \in 1..Len(pm) |-> View(pm[j], st.store[pm[j]], TRUE)], res, <<>>) : pm \in Perms(D)}
    [] o.op = "PutMany" ->
        \* documented: all permissions required; "omits hooks and subscriptions": notification left open
        IF o.i # Full THEN DeniedOut(st, <<>>)
        ELSE {Written(st, ApplyBatch(st.store, o.batch), <<>>, OkRes, <<>>),
              Written(st, ApplyBatch(st.store, o.batch), BatchViews(o.batch), OkRes, <<>>)}
    \* Put through an interface that has i's privileges and a delayed write cache (DelayCachedWrites): checked and
    \* accepted now, written when that cache is flushed
    [] o.op = "PutLater" ->
        IF st.store[o.k].present /\ ~MayI(st.store[o.k], o.i) THEN DeniedOut(st, <<>>)
        ELSE {Out(OkRes, [st EXCEPT !.pend = Append(@, [i |-> o.i, k |-> o.k, r |-> Rec(o.n, o.sec, o.crown, FALSE)])], Quiet(st), <<>>)}
    \* the flush of that cache: every pending write is either stored or dropped (the library refuses the batch write of
    \* an interface without all permissions) - but it is never stored over a record that the interface may not access
    \* *now*; whether subscribers are told is left open, as for PutMany
    [] o.op = "FlushLater" ->
        LET mine == SelectSeq(st.pend, LAMBDA e : e.i = o.i)
            st1 == [st EXCEPT !.pend = SelectSeq(st.pend, LAMBDA e : e.i # o.i)]
        IN UNION {{Written(st1, x.s, <<>>, OkRes, <<>>), Written(st1, x.s, x.w, OkRes, <<>>)} : x \in FlushOut(st.store, mine, o.i)}
    [] o.op = "Burst" ->
        \* o.cnt Puts of the same key in a row, feeds not drained in between: the only way to fill a feed
        IF o.i # Full \/ \E h \in HSlots : st.hooks[h].active THEN {}
        ELSE LET ws == BurstViews(o)
             IN {Written(st, [st.store EXCEPT ![o.k] = Rec(1 + (o.cnt % 3), o.sec, o.crown, FALSE)], ws, OkRes, <<>>)}
    [] o.op = "Push" ->
        \* the injected database announces a new value (no hooks)
        LET r == Rec(o.n, o.sec, o.crown, FALSE)
        IN {Written(st, [st.store EXCEPT ![o.k] = r], <<View(o.k, r, FALSE)>>, OkRes, <<>>)}
    [] o.op \in {"Subscribe", "Qsub"} ->
        IF st.subs[o.slot].used THEN {}
        ELSE LET S == [used |-> TRUE, active |-> TRUE, lazy |-> o.via = "api", p |-> o.p, c |-> o.c,
                       loc |-> IfLoc[o.i], int |-> IfInt[o.i], acc |-> <<>>]
                 st2 == [st EXCEPT !.subs[o.slot] = S]
             IN IF o.op = "Subscribe" THEN {Out(OkRes, st2, Quiet(st2), <<>>)}
                ELSE {Out(ResOf("ok", NoView, X, FALSE, 0, 0), st2, Quiet(st2), <<>>) : X \in QuerySets(st, o, loose)}
    [] o.op = "CancelSub" ->
        IF ~st.subs[o.slot].used THEN {Out(ErrRes("other"), st, Quiet(st), <<>>)}     \* nothing to cancel (its creation failed)
        \* cancelled before: cancelling again changes nothing, whatever it answers - in particular every other
        \* subscription goes on receiving what it asked for
        ELSE IF ~st.subs[o.slot].active THEN {Out(OkRes, st, Quiet(st), <<>>), Out(ErrRes("other"), st, Quiet(st), <<>>)}
        ELSE LET S == st.subs[o.slot]
                 st2 == [st EXCEPT !.subs[o.slot].active = FALSE, !.subs[o.slot].acc = <<>>]
                 f == [Quiet(st2) EXCEPT ![o.slot].items = S.acc]
             IN {[Out(OkRes, st2, f, <<>>) EXCEPT !.lazyslot = IF S.lazy THEN o.slot ELSE 0]}
    [] o.op = "RegisterHook" ->
        IF st.hooks[o.slot].used THEN {}
        ELSE LET H == [used |-> TRUE, active |-> TRUE, p |-> o.p, c |-> o.c, ph |-> o.ph, beh |-> o.beh]
                 st2 == [st EXCEPT !.hooks[o.slot] = H, !.horder = Append(@, o.slot)]
             IN {Out(OkRes, st2, Quiet(st2), <<>>)}
    [] o.op = "CancelHook" ->
        IF ~st.hooks[o.slot].active THEN {Out(ErrRes("other"), st, Quiet(st), <<>>)}
        ELSE LET st2 == [st EXCEPT !.hooks[o.slot].active = FALSE] IN {Out(OkRes, st2, Quiet(st2), <<>>)}
    [] OTHER -> {}

\* Any call may fail for a reason the properties do not speak about, if it then changes nothing and delivers
\* nothing; hooks may have been called up to the point of failure.
EscapeOf(st, o, X) ==
    LET calls == IF X = {} THEN <<>> ELSE (CHOOSE x \in X : TRUE).calls
    IN IF o.op \in {"CancelSub", "CancelHook", "Burst"} THEN {}
       ELSE {[Out(ErrRes("other"), st, Quiet(st), calls) EXCEPT !.loosecalls = TRUE]}

Step(st, o, loose) == LET X == Strict(st, o, loose) IN X \cup EscapeOf(st, o, X)

\* ---------------------------------------------------------------- comparing an outcome with an observation
\* (observed sets arrive as sequences)
ResMatch(r, obs) == /\ r.err = obs.err /\ r.rec = obs.rec /\ r.flag = obs.flag /\ r.cnt = obs.cnt /\ r.vh = obs.vh
                    /\ Range(obs.items) = r.items /\ Len(obs.items) = Cardinality(r.items)
\* API feed items: a delete message carries the key only; alias = the backend hands out its live record objects
\* (hashmap), so that a reply marshalled later by the API goroutine shows a later state of the same key: only the
\* keys are compared there (the same holds for a cached interface, which modifies its cached object in place)
LazyProj(v, alias) == IF alias THEN [NoView EXCEPT !.k = v.k]
                      ELSE IF v.del THEN [NoView EXCEPT !.k = v.k, !.del = TRUE] ELSE v
FeedMatch(x, s, obs, alias) ==
    /\ obs.closed = x.feeds[s].closed
    /\ IF s = x.lazyslot
       THEN IsSubSeq([j \in 1..Len(obs.items) |-> LazyProj(obs.items[j], alias)],
                     [j \in 1..Len(x.feeds[s].items) |-> LazyProj(x.feeds[s].items[j], alias)])
       ELSE /\ Q!IsPrefix(obs.items, x.feeds[s].items)
            /\ Len(obs.items) >= MinOf(Len(x.feeds[s].items), FeedCap)
FeedsMatch(x, obs, alias) == \A s \in Slots : FeedMatch(x, s, obs[s], alias)
CallsMatch(x, obs) == IF x.loosecalls THEN Q!IsPrefix(obs, x.calls) ELSE obs = x.calls
StoreMatch(x, obs) == \A k \in Keys : obs[k] = x.st.store[k]

\* ---------------------------------------------------------------- the two properties, said independently of Step
\* (checked by TLC on every transition of the model in RecordAccessGen, and on every observation of the Go
\* code in RecordAccessTrace)
HasIface(o) == o.via \in {"if", "api"} /\ o.i \in Ifaces
\* C03, read side: every record handed to the caller is one the caller may see
LeakRead(st, o, res) ==
    HasIface(o) /\ \E v \in {res.rec} \cup res.items :
        /\ v.k # 0
        /\ \/ ~MayI(v, o.i)
           \/ st.store[v.k].present /\ ~MayI(st.store[v.k], o.i)
\* C03, feeds: every item in a feed is one the subscriber may see
LeakFeed(st, feeds) ==
    \E s \in Slots : \E j \in 1..Len(feeds[s].items) :
        ~Permitted(feeds[s].items[j], st.subs[s].loc, st.subs[s].int)
\* C03, write side: a call of interface i leaves the records it may not see as they are
LeakWrite(st, o, store2) ==
    HasIface(o) /\ \E k \in Keys : st.store[k].present /\ ~MayI(st.store[k], o.i) /\ store2[k] # st.store[k]
\* C14: nothing arrives on an inactive subscription, and what arrives matches its query
FeedSound(st, feeds) ==
    \A s \in Slots : \A j \in 1..Len(feeds[s].items) :
        LET w == feeds[s].items[j] S == st.subs[s]
        IN S.used /\ KeyMatch(S.p, w.k) /\ CondMatch(S.c, w.k, w.n) /\ (S.active \/ S.lazy)
====
