---- MODULE StopProtocolGen ----
\* Behaviours of StopProtocol projected to the sequence of actors taking steps = scheduling policies
\* for the yield-point driver harness/cmd/stopwork (0 = stopper, -1 = stop function goroutine, i = item).
EXTENDS StopProtocol, Json

CONSTANT LateItems   \* items whose function returns only after the stop function has finished its bookkeeping and the
                     \* stopper waits for completion (a random walk rarely delays an item that long)

VARIABLES hist, done
gvars == <<vars, hist, done>>

Label == IF spc' # spc THEN 0
         ELSE IF fpc' # fpc THEN -1
         ELSE CHOOSE i \in Items : ipc'[i] # ipc[i]

GenInit == Init /\ hist = <<>> /\ done = FALSE
Terminal == /\ spc = "end" /\ fpc \in {"idle", "done"}
            /\ \A i \in Items : ipc[i] \in {"idle", "done"}
LateOK == \A i \in Items \cap LateItems :
              (ipc[i] = "running" /\ ipc'[i] = "returned") => (spc = "s5" /\ fpc \in {"done", "idle"})
GenStep == /\ ~done /\ Next /\ LateOK /\ hist' = Append(hist, Label) /\ done' = done
GenEmit == /\ ~done /\ Terminal /\ done' = TRUE
           /\ PrintT(<<"@@", ToJson([kinds |-> [i \in Items |-> Kind[i]], hasStopFn |-> HasStopFn, policy |-> hist])>>)
           /\ UNCHANGED <<vars, hist>>
GenNext == GenStep \/ GenEmit
GenSpec == GenInit /\ [][GenNext]_gvars
====
