---- MODULE StopProtocolGen ----
\* Behaviours of StopProtocol projected to the sequence of actors taking steps = scheduling policies
\* for the yield-point driver harness/cmd/stopwork (0 = stopper, -1 = stop function goroutine, i = item).
EXTENDS StopProtocol, Json

VARIABLES hist, done
gvars == <<vars, hist, done>>

Label == IF spc' # spc THEN 0
         ELSE IF fpc' # fpc THEN -1
         ELSE CHOOSE i \in Items : ipc'[i] # ipc[i]

GenInit == Init /\ hist = <<>> /\ done = FALSE
Terminal == /\ spc = "end" /\ fpc \in {"idle", "done"}
            /\ \A i \in Items : ipc[i] \in {"idle", "done"}
GenStep == /\ ~done /\ Next /\ hist' = Append(hist, Label) /\ done' = done
GenEmit == /\ ~done /\ Terminal /\ done' = TRUE
           /\ PrintT(<<"@@", ToJson([kinds |-> [i \in Items |-> Kind[i]], hasStopFn |-> HasStopFn, policy |-> hist])>>)
           /\ UNCHANGED <<vars, hist>>
GenNext == GenStep \/ GenEmit
GenSpec == GenInit /\ [][GenNext]_gvars
====
