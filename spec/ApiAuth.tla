---- MODULE ApiAuth ----
\* Reference model for property C12: an HTTP API handler runs only for requests holding the permission
\* it requires.  The model is a pure decision function over an abstract configuration state `S` and an
\* abstract request `q`; it yields the SET of outcomes the property allows (more than one element where
\* the property statement is silent).  ApiAuthGen enumerates the decision table and generates
\* configuration/session histories, ApiAuthTrace judges what the real api package answered.
EXTENDS Integers, Sequences, FiniteSets

\* ------------------------------------------------------------------------------------ permissions
PLow          == -3      \* below every defined value (out of range)
PNotFound     == -2
PDynamic      == -1
PNotSupported == 0
PAnyone       == 1
PUser         == 2
PAdmin        == 3
PSelf         == 4
PHigh         == 5       \* above every defined value (out of range)
Perms         == PLow..PHigh
Valid(p)      == p \in PAnyone..PSelf

Refusal        == {401, 403, 404, 405, 500}     \* answers of a refused request
HandlerStatus  == {200, 204}                    \* answers written by an invoked harness handler

Anon == <<PAnyone, PAnyone>>
\* pseudo grants of a failing authenticator (tuples of integers so that they live in one set with tokens)
GErr    == <<-100, -100>>
GDenied == <<-101, -101>>
IsToken(g) == g[1] \in Perms

\* ------------------------------------------------------------------------------------ state
\* S.authset  an authenticator function is registered (fixed per process)
\* S.dev      development mode is configured
\* S.amode    behaviour of the authenticator: "nil" (no token, no error) | "ok" (token <<ar, aw>>) |
\*            "err" (internal error) | "denied" (error wrapping ErrAPIAccessDeniedMessage)
\* S.keys     configured API key entries, in the order of the option value:
\*            [r, w     granted read/write permission (1..3: anyone, user, admin)
\*             exp      "none" | "far" (valid for an hour) | "soon" (expires while the history runs) | "past"
\*             form     "ok" | "badperm" (permission word unknown) | "badexp" (expiry not a timestamp)
\*             short    the key itself has fewer than four characters
\*             reuse    the key string is the one entry number i of the PREVIOUS configuration had]
\* S.prevn    number of entries of the previous key configuration
\* S.sess     sessions created in this history, in creation order: [r, w, state: "live" | "expired" | "gone"]
S0(authset) == [authset |-> authset, dev |-> FALSE, amode |-> "nil", ar |-> PAnyone, aw |-> PAnyone,
                keys |-> <<>>, prevn |-> 0, sess |-> <<>>]

SetKeys(S, ks)     == [S EXCEPT !.keys = ks, !.prevn = Len(S.keys)]
SetDev(S, b)       == [S EXCEPT !.dev = b]
SetAuth(S, m, r, w) == [S EXCEPT !.amode = m, !.ar = r, !.aw = w]
AddSession(S)      == [S EXCEPT !.sess = Append(@, [r |-> S.ar, w |-> S.aw, state |-> "live"])]
ExpireSession(S, k) == IF k \in 1..Len(S.sess) /\ S.sess[k].state = "live"
                       THEN [S EXCEPT !.sess[k].state = "expired"] ELSE S
CleanSessions(S)   == [S EXCEPT !.sess = [i \in 1..Len(@) |->
                            IF @[i].state = "expired" THEN [@[i] EXCEPT !.state = "gone"] ELSE @[i]]]

\* ------------------------------------------------------------------------------------ requests
\* q.via     "http" | "bridge" (database access to api:<path>, only reaches the /api/v1/ endpoints)
\* q.route   "wrap"    handler registered with WrapInAuthHandler(fn, rr, rw)
\*           "ep"      Endpoint{Read: rr, Write: rw} below /api/v1/
\*           "getonly" like "wrap", but the route only matches the method GET
\*           "plain"   handler that does not declare permissions (requires PermitSelf)
\*           "epmiss"  path below /api/v1/ without a registered endpoint
\*           "none"    path without any route
\* q.m       HTTP method;  q.acrm  value of the Access-Control-Request-Method header ("" = absent)
\* q.origin  "none" | "host" (equals Host) | "hostnoport" (Host has no port, origin host equals it) |
\*           "portless" (Host has a port, the origin has none) | "ext" (chrome-extension scheme) |
\*           "local" (localhost / 127.0.0.1 with another port) | "foreign" | "bad" (unparsable) | "garbage"
\* q.azk     Authorization header: "none" | "bearer" / "basic" (key entry azid of the configuration) |
\*           "old" (Bearer with the string of entry azid of the previous configuration) |
\*           "unknown" (Bearer, unknown key of >= 4 characters) | "short" (Bearer, unknown key of azn < 4
\*           characters) | "basicshort" (Basic, user+password of azn < 4 characters) | "basicbad" (Basic
\*           that cannot be decoded) | "scheme" (another scheme) | "garbage" (arbitrary bytes)
\* q.ckk     Cookie header: "none" | "sess" (session ckid of this history) | "unknown" (right name, unknown
\*           value) | "othername" (a live value under another cookie name) | "garbage"
ReadMethods  == {"GET", "HEAD"}
WriteMethods == {"POST", "PUT", "DELETE"}

EffMethod(q) == IF q.m = "OPTIONS" THEN q.acrm ELSE q.m
Class(q) == IF EffMethod(q) \in ReadMethods THEN "read"
            ELSE IF EffMethod(q) \in WriteMethods THEN "write" ELSE "none"

\* the permission the matched handler declares for the class of the request
Required(q) == CASE q.route \in {"wrap", "ep", "getonly"} -> IF Class(q) = "read" THEN q.rr ELSE q.rw
                 [] q.route = "plain" -> PSelf
                 [] OTHER -> PNotFound

ClassPerm(q, t) == IF Class(q) = "read" THEN t[1] ELSE t[2]

\* does the origin pass: a set of booleans (two elements where the statement leaves it open)
OriginSet(S, q) ==
    IF q.via = "bridge" THEN {TRUE}
    ELSE CASE q.origin \in {"none", "host", "hostnoport", "ext"} -> {TRUE}
           [] q.origin = "local"    -> {S.dev}
           [] q.origin = "portless" -> {TRUE, FALSE}
           [] OTHER                 -> {FALSE}

\* the configured entry a presented key refers to (empty sequence: none)
KeyOf(S, q) ==
    IF q.via = "bridge" THEN <<>>
    ELSE IF q.azk \in {"bearer", "basic"} /\ q.azid \in 1..Len(S.keys) THEN <<S.keys[q.azid]>>
    ELSE IF q.azk = "old" /\ q.azid \in 1..Len(S.keys) /\ q.azid <= S.prevn /\ S.keys[q.azid].reuse
         THEN <<S.keys[q.azid]>>
    ELSE <<>>

\* is the presented key configured and unexpired: a set of booleans; ph is the position of the request
\* relative to the instant the "soon" keys expire: "before" | "after" | "around" (the request overlapped it)
KeyLiveSet(S, q, ph) ==
    LET ko == KeyOf(S, q) IN
    IF ko = <<>> THEN {FALSE}
    ELSE LET k == ko[1] IN
         IF k.form # "ok" THEN {FALSE}
         ELSE CASE k.exp \in {"none", "far"} -> {TRUE}
                [] k.exp = "past" -> {FALSE}
                [] OTHER -> IF ph = "before" THEN {TRUE} ELSE IF ph = "after" THEN {FALSE} ELSE {TRUE, FALSE}

KeyTokens(S, q, kl) == IF kl THEN {<<KeyOf(S, q)[1].r, KeyOf(S, q)[1].w>>} ELSE {}

SessTokens(S, q) ==
    IF q.via = "http" /\ q.ckk = "sess" /\ q.ckid \in 1..Len(S.sess) /\ S.sess[q.ckid].state = "live"
    THEN {<<S.sess[q.ckid].r, S.sess[q.ckid].w>>} ELSE {}

\* what the presented credentials grant (kl: the presented key is live)
Grants(S, q, kl) ==
    IF S.dev THEN {<<PSelf, PSelf>>}
    ELSE IF q.via = "bridge" THEN {<<PAdmin, PAdmin>>}
    ELSE LET c == KeyTokens(S, q, kl) \cup SessTokens(S, q) IN
         IF c # {} THEN c
         ELSE IF ~S.authset \/ S.amode = "nil" THEN {Anon}
         ELSE IF S.amode = "ok" THEN {<<S.ar, S.aw>>}
         ELSE IF S.amode = "err" THEN {GErr} ELSE {GDenied}

\* ------------------------------------------------------------------------------------ outcomes
\* [inv   the handler body ran
\*  tr,tw the AuthToken the handler saw (-9 when not invoked)
\*  sts   class of the status: "handler" (written by the handler) | "refusal" (one of Refusal) |
\*        "any" (a refusal or an empty success: the statement does not say how unclassified methods and
\*        preflights are answered)]
NoInv(s) == [inv |-> FALSE, tr |-> -9, tw |-> -9, sts |-> s]
Inv(t)   == [inv |-> TRUE, tr |-> t[1], tw |-> t[2], sts |-> "handler"]

ForGrant(q, g, need) ==
    IF g = GErr \/ g = GDenied
    THEN {NoInv("refusal")} \cup (IF need = PAnyone THEN {Inv(Anon)} ELSE {})
    ELSE IF Valid(ClassPerm(q, g)) /\ ClassPerm(q, g) >= need THEN {Inv(g)} ELSE {NoInv("refusal")}

\* the decision for a request with a classified method whose origin passed
Core(S, q, kl) ==
    LET req == Required(q) IN
    IF Class(q) = "none" THEN {NoInv("any")}
    ELSE IF q.route = "getonly" /\ q.m # "GET" THEN {NoInv("refusal")}
    ELSE IF q.via = "bridge" /\ q.route \notin {"ep", "epmiss"} THEN {NoInv("refusal")}
    ELSE IF req \in {PNotFound, PNotSupported} \/ req < PNotFound \/ req > PSelf THEN {NoInv("refusal")}
    ELSE IF req = PAnyone
         THEN {Inv(Anon)} \cup {Inv(g) : g \in {x \in Grants(S, q, kl) : IsToken(x) /\ Valid(ClassPerm(q, x))}}
    ELSE UNION {ForGrant(q, g, IF req = PDynamic THEN PAnyone ELSE req) : g \in Grants(S, q, kl)}

Outcomes(S, q, kl, ov) ==
    IF ~ov THEN {NoInv("refusal")}
    ELSE IF q.m = "OPTIONS"
         \* a preflight is answered without the handler; where it does reach the handler the request must
         \* hold the permission of the announced method
         THEN {NoInv("any")} \cup {o \in Core(S, q, kl) : o.inv}
    ELSE Core(S, q, kl)

Decide(S, q, ph) == UNION {Outcomes(S, q, kl, ov) : kl \in KeyLiveSet(S, q, ph), ov \in OriginSet(S, q)}

\* may the authenticator be consulted for this request
AuthMayRun(S, q) == S.authset /\ TRUE \in OriginSet(S, q)

\* does the code create a session for this request (used to predict session numbers when histories are
\* generated; trace validation follows the Set-Cookie header it observed)
Predictable(S, q) == q.origin # "portless"
CreatesSession(S, q) ==
    /\ q.via = "http" /\ S.authset /\ ~S.dev /\ S.amode = "ok"
    /\ OriginSet(S, q) = {TRUE}
    /\ ~(q.m = "OPTIONS" /\ q.origin # "none" /\ q.acrm # "")
    /\ Class(q) # "none"
    /\ ~(q.route = "getonly" /\ q.m # "GET")
    /\ Required(q) \in {PDynamic, PUser, PAdmin, PSelf}
    /\ KeyLiveSet(S, q, "before") = {FALSE}
    /\ SessTokens(S, q) = {}

\* ------------------------------------------------------------------------------------ judging an observation
\* ob: [st status, inv, tr, tw, ac authenticator called, sc session cookie set, err transport error text]
Match(o, ob) ==
    /\ o.inv = ob.inv
    /\ o.inv => ob.tr = o.tr /\ ob.tw = o.tw /\ ob.st \in HandlerStatus
    /\ ~o.inv => \/ ob.st \in Refusal
                 \/ o.sts = "any" /\ ob.st \in HandlerStatus

ReqAllowed(S, q, ph, ob) ==
    /\ ob.err = ""
    /\ \E o \in Decide(S, q, ph) : Match(o, ob)
    /\ ob.ac => AuthMayRun(S, q)
    /\ ob.sc => ob.ac /\ S.amode = "ok"

\* C06, API part: a panicking endpoint function is answered with 500 (unless it had already written its status
\* line), the panic is reported on the module error channel, and the server keeps serving
LateKinds == {"handlerlate", "wraplate"}
PanicAllowed(ev) == /\ ev.err = "" /\ ev.probe = 200 /\ ev.probeinv
                    /\ ev.reported
                    /\ (ev.kind \notin LateKinds) => ev.st = 500

\* ------------------------------------------------------------------------------------ laws of the model
\* (checked by TLC over the whole table in ApiAuthGen; they restate the property independently of the
\* decision procedure above)
Need(q) == IF Required(q) = PDynamic THEN PAnyone ELSE Required(q)

\* tokens some presented credential grants, plus anonymous access
Presented(S, q, ph) ==
    {Anon} \cup (IF S.dev THEN {<<PSelf, PSelf>>} ELSE {})
           \cup (IF q.via = "bridge" THEN {<<PAdmin, PAdmin>>} ELSE {})
           \cup UNION {KeyTokens(S, q, kl) : kl \in KeyLiveSet(S, q, ph)}
           \cup SessTokens(S, q)
           \cup (IF S.authset /\ S.amode = "ok" THEN {<<S.ar, S.aw>>} ELSE {})

LawInvoked(S, q, ph) == \A o \in Decide(S, q, ph) : o.inv =>
    /\ Class(q) # "none"
    /\ Required(q) \in {PDynamic, PAnyone, PUser, PAdmin, PSelf}
    /\ Valid(ClassPerm(q, <<o.tr, o.tw>>)) /\ ClassPerm(q, <<o.tr, o.tw>>) >= Need(q)
    /\ <<o.tr, o.tw>> \in Presented(S, q, ph)

LawNeverInvoked(S, q, ph) ==
    (Required(q) \in {PNotFound, PNotSupported} \/ Class(q) = "none") => \A o \in Decide(S, q, ph) : ~o.inv

LawRefusal(S, q, ph) ==
    (q.m # "OPTIONS" /\ Class(q) # "none") => \A o \in Decide(S, q, ph) : ~o.inv => o.sts = "refusal"

LawForeign(S, q, ph) ==
    (q.via = "http" /\ (q.origin \in {"foreign", "bad", "garbage"} \/ (q.origin = "local" /\ ~S.dev)))
        => Decide(S, q, ph) = {NoInv("refusal")} /\ ~AuthMayRun(S, q)

\* credentials that grant nothing: the request is decided as if they were absent
NoKey(q)    == [q EXCEPT !.azk = "none", !.azid = 0, !.azn = 0]
NoCookie(q) == [q EXCEPT !.ckk = "none", !.ckid = 0]
DeadKey(S, q, ph) == q.azk # "none" /\ KeyLiveSet(S, q, ph) = {FALSE}
DeadCookie(S, q)  == q.ckk # "none" /\ SessTokens(S, q) = {}
LawNothingBeyondAnon(S, q, ph) ==
    /\ DeadKey(S, q, ph) => Decide(S, q, ph) = Decide(S, NoKey(q), ph)
    /\ DeadCookie(S, q)  => Decide(S, q, ph) = Decide(S, NoCookie(q), ph)

\* a request whose every grant suffices is served: the model never allows refusing it
Determined(S, q, ph) == q.m # "OPTIONS" /\ Class(q) # "none" /\ OriginSet(S, q) = {TRUE}
                        /\ ~(q.route = "getonly" /\ q.m # "GET")
                        /\ ~(q.via = "bridge" /\ q.route \notin {"ep", "epmiss"})
LawServed(S, q, ph) ==
    (/\ Determined(S, q, ph) /\ Required(q) \in {PDynamic, PAnyone, PUser, PAdmin, PSelf}
     /\ \A kl \in KeyLiveSet(S, q, ph) : \A g \in Grants(S, q, kl) :
            IsToken(g) /\ Valid(ClassPerm(q, g)) /\ ClassPerm(q, g) >= Need(q))
        => \A o \in Decide(S, q, ph) : o.inv

Laws(S, q, ph) == /\ LawInvoked(S, q, ph) /\ LawNeverInvoked(S, q, ph) /\ LawRefusal(S, q, ph)
                  /\ LawForeign(S, q, ph) /\ LawNothingBeyondAnon(S, q, ph) /\ LawServed(S, q, ph)
                  /\ Decide(S, q, ph) # {}
====
