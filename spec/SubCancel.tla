---- MODULE SubCancel ----
\* Property C14, concurrent part: Controller.Put/PushUpdate notifying subscribers vs Subscription.Cancel,
\* in the shape of the implementation (database/controller.go notifySubscribers, database/subscription.go):
\*
\*   writer     StorageWrite ; RLock(subscriptionLock) ; for each sub in list: non-blocking send ; RUnlock
\*   canceller  Lock(subscriptionLock) ; remove own entry from the list ; close(own feed) ; Unlock ; return
\*
\* TLC explores every interleaving.  Invariants: no send on a closed feed (a Go panic), no delivery after Cancel
\* returned, a returned Cancel left its feed closed, every feed holds each write at most once and - if the
\* subscription was never cancelled and the buffer is large enough - exactly once, the writes of one writer in
\* their order.  ByPointer = TRUE models the defect of the pinned tree (entries are compared by their query
\* pointer): with SameQuery = TRUE TLC finds the send on a closed feed.
EXTENDS Integers, Sequences, FiniteSets, TLC

CONSTANTS NW,          \* writers 1..NW
          WritesPer,   \* writes per writer
          NSub,        \* subscriptions 1..NSub, registered in this order
          Cancels,     \* subscriptions that get cancelled (each by its own canceller)
          SameQuery,   \* all subscriptions were created from the same *query.Query
          ByPointer,   \* Cancel looks for its entry by query pointer (defect D16) instead of by identity
          Cap          \* feed buffer

Writers == 1..NW
Subs == 1..NSub
QOf(s) == IF SameQuery THEN 0 ELSE s

VARIABLES list,      \* Controller.subscriptions
          closed,    \* feed closed
          wlock,     \* holder of the write lock (0 = none)
          readers,   \* holders of the read lock
          wpc, wj, wn,   \* writer: pc, position in the list, finished writes
          cpc,       \* canceller pc
          feed,      \* per subscription: sequence of <<writer, number>>
          ret,       \* subscriptions whose Cancel returned
          panic, late
vars == <<list, closed, wlock, readers, wpc, wj, wn, cpc, feed, ret, panic, late>>

Init == /\ list = [j \in 1..NSub |-> j] /\ closed = [s \in Subs |-> FALSE]
        /\ wlock = 0 /\ readers = {}
        /\ wpc = [w \in Writers |-> "idle"] /\ wj = [w \in Writers |-> 1] /\ wn = [w \in Writers |-> 0]
        /\ cpc = [s \in Subs |-> "idle"]
        /\ feed = [s \in Subs |-> <<>>] /\ ret = {} /\ panic = FALSE /\ late = FALSE

\* ---- writer
Store(w) == /\ wpc[w] = "idle" /\ wn[w] < WritesPer /\ ~panic
            /\ wpc' = [wpc EXCEPT ![w] = "stored"]
            /\ UNCHANGED <<list, closed, wlock, readers, wj, wn, cpc, feed, ret, panic, late>>
RLock(w) == /\ wpc[w] = "stored" /\ wlock = 0
            /\ readers' = readers \cup {w} /\ wpc' = [wpc EXCEPT ![w] = "iter"] /\ wj' = [wj EXCEPT ![w] = 1]
            /\ UNCHANGED <<list, closed, wlock, wn, cpc, feed, ret, panic, late>>
Send(w) == /\ wpc[w] = "iter" /\ wj[w] <= Len(list) /\ ~panic
           /\ LET s == list[wj[w]] IN
                IF closed[s] THEN /\ panic' = TRUE /\ UNCHANGED <<feed, late>>
                ELSE /\ feed' = IF Len(feed[s]) < Cap THEN [feed EXCEPT ![s] = Append(@, <<w, wn[w] + 1>>)] ELSE feed
                     /\ late' = (late \/ s \in ret)
                     /\ panic' = panic
           /\ wj' = [wj EXCEPT ![w] = @ + 1]
           /\ UNCHANGED <<list, closed, wlock, readers, wpc, wn, cpc, ret>>
RUnlock(w) == /\ wpc[w] = "iter" /\ wj[w] > Len(list)
              /\ readers' = readers \ {w} /\ wpc' = [wpc EXCEPT ![w] = "idle"] /\ wn' = [wn EXCEPT ![w] = @ + 1]
              /\ UNCHANGED <<list, closed, wlock, wj, cpc, feed, ret, panic, late>>

\* ---- canceller of subscription s
CLock(s) == /\ s \in Cancels /\ cpc[s] = "idle" /\ wlock = 0 /\ readers = {}
            /\ wlock' = s /\ cpc' = [cpc EXCEPT ![s] = "locked"]
            /\ UNCHANGED <<list, closed, readers, wpc, wj, wn, feed, ret, panic, late>>
Found(s) == {j \in 1..Len(list) : IF ByPointer THEN QOf(list[j]) = QOf(s) ELSE list[j] = s}
CRemoveClose(s) ==
    /\ cpc[s] = "locked"
    /\ IF Found(s) = {} THEN UNCHANGED <<list, closed>>
       ELSE LET j == CHOOSE x \in Found(s) : \A y \in Found(s) : x <= y
            IN /\ list' = [i \in 1..(Len(list) - 1) |-> IF i < j THEN list[i] ELSE list[i + 1]]
               /\ closed' = [closed EXCEPT ![s] = TRUE]     \* close(s.Feed): its own feed
    /\ cpc' = [cpc EXCEPT ![s] = "closed"]
    /\ UNCHANGED <<wlock, readers, wpc, wj, wn, feed, ret, panic, late>>
CUnlock(s) == /\ cpc[s] = "closed"
              /\ wlock' = 0 /\ cpc' = [cpc EXCEPT ![s] = "done"] /\ ret' = ret \cup {s}
              /\ UNCHANGED <<list, closed, readers, wpc, wj, wn, feed, panic, late>>

Next == \/ \E w \in Writers : Store(w) \/ RLock(w) \/ Send(w) \/ RUnlock(w)
        \/ \E s \in Subs : CLock(s) \/ CRemoveClose(s) \/ CUnlock(s)
Spec == Init /\ [][Next]_vars

Terminal == /\ \A w \in Writers : wpc[w] = "idle" /\ wn[w] = WritesPer
            /\ \A s \in Cancels : cpc[s] = "done"

\* ---- properties
NoSendOnClosed == ~panic
NoDeliveryAfterCancel == ~late
ClosedAfterReturn == \A s \in ret : closed[s]
ClosedOnlyByOwnCancel == \A s \in Subs : closed[s] => cpc[s] \in {"closed", "done"}
AtMostOnce == \A s \in Subs : \A i, j \in 1..Len(feed[s]) : feed[s][i] = feed[s][j] => i = j
WriterOrder == \A s \in Subs : \A i, j \in 1..Len(feed[s]) :
                  (i < j /\ feed[s][i][1] = feed[s][j][1]) => feed[s][i][2] < feed[s][j][2]
\* a subscription that nobody cancels gets every finished write (buffer permitting)
Complete == \A s \in Subs \ Cancels : \A w \in Writers : \A n \in 1..wn[w] :
                Len(feed[s]) >= Cap \/ \E i \in 1..Len(feed[s]) : feed[s][i] = <<w, n>>
\* a cancelled subscription got at least the writes that finished before its canceller took the lock (ghost-free
\* formulation: whatever finished while it was still idle)
CompleteBeforeCancel == \A s \in Cancels : cpc[s] = "idle" =>
                            \A w \in Writers : \A n \in 1..wn[w] :
                                Len(feed[s]) >= Cap \/ \E i \in 1..Len(feed[s]) : feed[s][i] = <<w, n>>
====
