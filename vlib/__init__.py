"""Common machinery for the portbase TLA+ model-based checks.

Everything a check needs: scratch directories, TLC invocation (exhaustive, simulation,
trace validation), Go driver builds from /repo's working tree (tag `verif`), parallel
process execution, evidence files, known findings, VIOLATION lines.

Only the Python standard library is used.
"""
import hashlib
import json
import os
import re
import shutil
import subprocess
import sys
import tempfile
import threading
import time
from concurrent.futures import ThreadPoolExecutor

VERIF = os.path.dirname(os.path.dirname(os.path.abspath(__file__)))
REPO = os.environ.get("VERIF_REPO", "/repo")
SPEC = os.path.join(VERIF, "spec")
HARNESS = os.path.join(VERIF, "harness")
TLA_JAR = "/opt/veriftools/tla/tla2tools.jar"
TLA_CP = TLA_JAR + ":/opt/veriftools/tla/CommunityModules-deps.jar"
NCPU = os.cpu_count() or 4

GOENV = {
    "GOFLAGS": "-mod=mod",
    "GOPROXY": "off",
    "GOSUMDB": "off",
    "GOTOOLCHAIN": "local",
}


STALL_LIMIT = 10.0   # seconds


class Inconclusive(Exception):
    """Infrastructure problem: never a violation (exit 2)."""


def log(*a):
    print(*a, file=sys.stderr, flush=True)


class TlcResult:
    def __init__(self, rc, out, wall):
        self.rc = rc
        self.out = out
        self.wall = wall
        m = re.findall(r"(\d+) states generated, (\d+) distinct states found", out)
        self.generated = int(m[-1][0]) if m else 0
        self.distinct = int(m[-1][1]) if m else 0
        m = re.search(r"The depth of the complete state graph search is (\d+)", out)
        self.depth = int(m.group(1)) if m else 0
        self.violated = None
        m = re.search(r"Invariant (\S+) is violated", out)
        if m:
            self.violated = m.group(1)
        m = re.search(r"Action property (\S+) is violated", out)
        if m:
            self.violated = m.group(1)
        if "Temporal properties were violated" in out:
            self.violated = self.violated or "temporal"
        self.ok = rc == 0 and "Model checking completed. No error has been found." in out
        # simulation mode never prints "completed"; rc 0 and no error lines is ok
        self.sim_ok = rc == 0 and "Error:" not in out

    def emitted(self, marker="@@"):
        """JSON values printed by the spec with PrintT(<<marker, ToJson(x)>>) or Print."""
        res = []
        for line in self.out.splitlines():
            i = line.find(marker)
            if i < 0:
                continue
            s = line[i + len(marker):].strip()
            # PrintT of a tuple <<"@@", "json">> prints: <<"@@", "{...}">>
            if s.startswith('", "') or s.startswith('",'):
                s = s.split(",", 1)[1].strip()
                if s.endswith(">>"):
                    s = s[:-2].strip()
                try:
                    s = json.loads(s)  # un-escape the TLA+ string
                except Exception:
                    continue
            try:
                res.append(json.loads(s))
            except Exception:
                continue
        return res


class Ctx:
    def __init__(self, prop, tier, seed):
        self.prop = prop
        self.tier = tier
        self.seed = seed
        self.t0 = time.time()
        self.scratch = tempfile.mkdtemp(prefix="verif-%s-" % prop.lower())
        self.violations = []   # dicts: sig, desc, replay(data)
        self.known_hits = []
        self.tlc_states = 0
        self.tlc_transitions = 0
        self.tlc_runs = []
        self._n = 0
        self._lock = threading.Lock()
        self._built = {}
        # stall watchdog: a frozen or starved machine (a sandbox snapshot, a suspended VM) makes clocks jump - the built-in
        # timeouts of the library (module start / stop, execution wait) then fire although nothing exceeded them
        self._stall = 0.0
        t = threading.Thread(target=self._watch, daemon=True)
        t.start()

    def _watch(self):
        while True:
            t0 = time.monotonic()
            time.sleep(0.25)
            gap = time.monotonic() - t0 - 0.25
            if gap > self._stall:
                self._stall = gap

    def stalled(self):
        """Longest time (seconds) this process was not scheduled or the clock jumped during the run."""
        return self._stall

    # ---------------------------------------------------------------- scratch
    def sub(self, name):
        with self._lock:
            self._n += 1
            k = self._n
        d = os.path.join(self.scratch, "%s-%d" % (name, k))
        os.makedirs(d)
        return d

    def cleanup(self):
        shutil.rmtree(self.scratch, ignore_errors=True)

    # ------------------------------------------------------------------- TLC
    def tlc(self, module, cfg=None, cfg_text=None, mode="bfs", workers=None, depth=None,
            num=None, timeout=600, files=None, deadlock=False, seed=None, extra=None,
            count=True, java_opts=None, want_ok=True):
        """Run TLC on spec/<module>.tla in a scratch copy of the spec directory.

        mode: bfs | simulate.  cfg: file name inside spec/ or cfg_text: literal text.
        files: {name: text} additional files written next to the spec (traces ...).
        """
        d = self.sub("tlc")
        for f in os.listdir(SPEC):
            p = os.path.join(SPEC, f)
            if os.path.isfile(p) and (f.endswith(".tla") or f.endswith(".cfg")):
                shutil.copy(p, d)
        for name, text in (files or {}).items():
            with open(os.path.join(d, name), "w") as fh:
                fh.write(text)
        if cfg_text is not None:
            cfg = "_gen_%s.cfg" % module
            with open(os.path.join(d, cfg), "w") as fh:
                fh.write(cfg_text)
        if cfg is None:
            cfg = module + ".cfg"
        if workers is None:
            workers = NCPU if mode == "bfs" else 1
        if workers == 1:
            cmd = ["java", "-XX:+UseSerialGC", "-Xmx4g", "-Xss64m", "-XX:TieredStopAtLevel=1"]
        else:
            cmd = ["java", "-XX:+UseParallelGC", "-Xmx8g", "-Xss64m"]    # bounded: several TLC runs of one check work in parallel
        cmd += java_opts or []
        cmd += ["-cp", TLA_CP, "tlc2.TLC", "-metadir", os.path.join(d, "meta"),
                "-workers", str(workers), "-config", cfg]
        if not deadlock:
            cmd += ["-deadlock"]
        if mode == "simulate":
            sim = "num=%d" % (num or 100)
            cmd += ["-simulate", sim, "-depth", str(depth or 50),
                    "-seed", str(self.seed if seed is None else seed)]
        cmd += extra or []
        cmd += [module + ".tla"]
        t0 = time.time()
        try:
            p = subprocess.run(cmd, cwd=d, stdout=subprocess.PIPE, stderr=subprocess.STDOUT,
                               timeout=timeout, text=True, errors="replace")
        except subprocess.TimeoutExpired:
            raise Inconclusive("TLC timeout after %ds on %s/%s" % (timeout, module, cfg))
        r = TlcResult(p.returncode, p.stdout, time.time() - t0)
        r.dir = d
        if count:
            self.tlc_states += r.distinct
            self.tlc_transitions += r.generated
        self.tlc_runs.append({"module": module, "cfg": cfg, "mode": mode, "generated": r.generated,
                              "distinct": r.distinct, "wall_s": round(r.wall, 2), "rc": r.rc})
        if want_ok:
            good = r.ok if mode == "bfs" else r.sim_ok
            if not good:
                tail = "\n".join(r.out.splitlines()[-40:])
                raise Inconclusive("TLC did not finish cleanly on %s/%s (rc=%d):\n%s" % (module, cfg, r.rc, tail))
        return r

    # -------------------------------------------------------------------- Go
    def go_build(self, driver, tags="verif"):
        """Build harness/cmd/<driver> against /repo's current working tree."""
        if driver in self._built:
            return self._built[driver]
        out = os.path.join(self.scratch, "bin-" + driver)
        env = dict(os.environ)
        env.update(GOENV)
        cmd = ["go", "build", "-tags", tags, "-o", out]
        # always build with a scratch copy of go.mod/go.sum (go -mod=mod adds the indirect requirements
        # there), so that the committed harness/go.mod is never rewritten; VERIF_REPO=/tmp/repo-x redirects
        # the replace directive to a scratch worktree of the repository during development
        mf = os.path.join(self.scratch, "alt.mod")
        if not os.path.exists(mf):
            with open(os.path.join(HARNESS, "go.mod")) as fh:
                txt = fh.read().replace("=> /repo", "=> " + REPO)
            with open(mf, "w") as fh:
                fh.write(txt)
            shutil.copy(os.path.join(REPO, "go.sum"), os.path.join(self.scratch, "alt.sum"))
        cmd += ["-modfile", mf]
        cmd += ["./cmd/" + driver]
        p = subprocess.run(cmd, cwd=HARNESS, env=env, stdout=subprocess.PIPE, stderr=subprocess.STDOUT,
                           text=True, timeout=900)
        if p.returncode != 0:
            raise Inconclusive("go build of driver %s failed:\n%s" % (driver, p.stdout[-4000:]))
        self._built[driver] = out
        return out

    def run(self, cmd, input=None, timeout=300, env=None, cwd=None):
        e = dict(os.environ)
        e.update(GOENV)
        e.update(env or {})
        t0 = time.time()
        try:
            p = subprocess.run(cmd, input=input, stdout=subprocess.PIPE, stderr=subprocess.PIPE,
                               timeout=timeout, text=True, env=e, cwd=cwd, errors="replace")
            return p.returncode, p.stdout, p.stderr, time.time() - t0
        except subprocess.TimeoutExpired as ex:
            out = ex.stdout or ""
            err = ex.stderr or ""
            if isinstance(out, bytes):
                out = out.decode(errors="replace")
            if isinstance(err, bytes):
                err = err.decode(errors="replace")
            return -999, out, err, time.time() - t0

    def pmap(self, fn, items, par=None):
        with ThreadPoolExecutor(max_workers=par or NCPU) as ex:
            return list(ex.map(fn, items))

    # ------------------------------------------------------------ violations
    def violation(self, sig, desc, replay):
        """Record one conformance failure. sig: stable signature of the failing case."""
        for v in self.violations:
            if v["sig"] == sig:
                v["count"] += 1
                return
        self.violations.append({"sig": sig, "desc": desc, "replay": replay, "count": 1})


def sha(obj):
    return hashlib.sha256(json.dumps(obj, sort_keys=True, default=str).encode()).hexdigest()[:16]


def load_findings():
    p = os.path.join(VERIF, "known_findings.json")
    if not os.path.exists(p):
        return []
    with open(p) as fh:
        return json.load(fh).get("findings", [])


def finish(ctx, level, coverage, assumptions, exit_on_done=True):
    """Apply known findings, write evidence, print VIOLATION / KNOWN-FINDING lines, exit."""
    import fnmatch
    findings = [f for f in load_findings() if f.get("property") == ctx.prop and f.get("status") == "known"]
    unknown = []
    known_printed = set()
    for v in ctx.violations:
        hit = None
        for f in findings:
            pats = f["signature"] if isinstance(f["signature"], list) else [f["signature"]]
            if any(fnmatch.fnmatchcase(v["sig"], p) for p in pats):
                hit = f
                break
        if hit is not None:
            if hit["id"] not in known_printed:
                known_printed.add(hit["id"])
                print("KNOWN-FINDING: property=%s %s [%s] %s" % (ctx.prop, hit["id"], v["sig"], hit["what"]))
        else:
            unknown.append(v)
    if unknown and ctx.stalled() >= STALL_LIMIT:
        # verdicts that rest on real timers are not reliable when the machine stood still: an infrastructure problem
        raise Inconclusive("the machine stalled for %.0f s during the run (clock jump or frozen processes): %d rejection(s) not "
                           "reported, first: %s" % (ctx.stalled(), len(unknown), unknown[0]["sig"]))
    # runs against a scratch worktree (seeded changes) leave /verif's evidence and replay files alone
    outdir = VERIF if REPO == "/repo" else os.path.join("/tmp", "verif-out-" + os.path.basename(REPO.rstrip("/")))
    rdir = os.path.join(outdir, "replay", ctx.prop)
    for v in unknown:
        os.makedirs(rdir, exist_ok=True)
        path = os.path.join(rdir, "%s.json" % sha(v["sig"]))
        with open(path, "w") as fh:
            json.dump({"property": ctx.prop, "signature": v["sig"], "description": v["desc"],
                       "replay": v["replay"], "seed": ctx.seed, "tier": ctx.tier}, fh, indent=1, default=str)
        print("VIOLATION property=%s replay=%s" % (ctx.prop, os.path.relpath(path, outdir)))
        print("  signature: %s" % v["sig"])
        print("  %s" % v["desc"][:2000])
    cov = dict(coverage)
    if level == "model_checking":
        cov.setdefault("states", ctx.tlc_states)
        cov.setdefault("transitions", ctx.tlc_transitions)
        cov.setdefault("traces_validated_against_impl", 0)
    cov["tlc_runs"] = ctx.tlc_runs
    cov["known_findings_hit"] = sorted(known_printed)
    ev = {
        "property_id": ctx.prop,
        "tier": ctx.tier,
        "seed": ctx.seed,
        "level": level,
        "coverage": cov,
        "assumptions": assumptions,
        "wall_s": round(time.time() - ctx.t0, 2),
        "violations": len(unknown),
    }
    os.makedirs(os.path.join(outdir, "evidence"), exist_ok=True)
    with open(os.path.join(outdir, "evidence", ctx.prop + ".json"), "w") as fh:
        json.dump(ev, fh, indent=1, default=str)
    ctx.cleanup()
    rc = 1 if unknown else 0
    print("%s %s tier=%s seed=%d wall=%.1fs violations=%d known=%d" % (
        "FAIL" if rc else "PASS", ctx.prop, ctx.tier, ctx.seed, ev["wall_s"], len(unknown), len(known_printed)))
    if exit_on_done:
        sys.exit(rc)
    return rc


def cfg_text(spec="Spec", init=None, next_=None, constants=None, invariants=(), properties=(),
             constraint=None, view=None, postcondition=None, action_constraint=None, symmetry=None,
             check_deadlock=False):
    """Render a TLC configuration file."""
    L = []
    if init and next_:
        L.append("INIT %s" % init)
        L.append("NEXT %s" % next_)
    else:
        L.append("SPECIFICATION %s" % spec)
    if constants:
        L.append("CONSTANTS")
        for k, v in constants.items():
            L.append("  %s = %s" % (k, tla_value(v)))
    for i in invariants:
        L.append("INVARIANT %s" % i)
    for p in properties:
        L.append("PROPERTY %s" % p)
    if constraint:
        L.append("CONSTRAINT %s" % constraint)
    if action_constraint:
        L.append("ACTION_CONSTRAINT %s" % action_constraint)
    if view:
        L.append("VIEW %s" % view)
    if symmetry:
        L.append("SYMMETRY %s" % symmetry)
    if postcondition:
        L.append("POSTCONDITION %s" % postcondition)
    L.append("CHECK_DEADLOCK %s" % ("TRUE" if check_deadlock else "FALSE"))
    return "\n".join(L) + "\n"


def tla_value(v):
    if isinstance(v, bool):
        return "TRUE" if v else "FALSE"
    if isinstance(v, int):
        return str(v)
    if isinstance(v, str):
        return v   # raw TLA+ text (model values, quoted strings supplied by the caller)
    if isinstance(v, (list, tuple)):
        return "<<" + ", ".join(tla_value(x) for x in v) + ">>"
    if isinstance(v, (set, frozenset)):
        return "{" + ", ".join(tla_value(x) for x in sorted(v, key=str)) + "}"
    raise TypeError(v)


# ---------------------------------------------------------------------------------------------
# E1 helpers: run generated scripts through a driver, validate the recorded traces with TLC
# ---------------------------------------------------------------------------------------------
def emitted_scripts(tlc_result):
    return tlc_result.emitted("@@")


def read_ndjson(path):
    evs = []
    if not os.path.exists(path):
        return evs
    with open(path, errors="replace") as fh:
        for line in fh:
            line = line.strip()
            if not line:
                continue
            try:
                evs.append(json.loads(line))
            except Exception:
                break   # partial last line of a killed driver
    return evs


def drive(ctx, binpath, scripts, chunk=64, timeout=300, args=None, env=None, par=None):
    """Run `binpath <scripts-file> <trace-file> <skip>` over all scripts, in parallel chunks.

    Driver convention: one script per input line; every emitted event carries "h" = index of the
    script in the input file; events are flushed as they are written; exit status 0 on completion.
    A driver that dies (panic outside recover, fatal error, kill, timeout) is restarted behind the
    script it died in.  Returns one dict per script: {"events": [...], "crashed": None | text}.
    """
    results = [None] * len(scripts)
    jobs = [list(range(i, min(i + chunk, len(scripts)))) for i in range(0, len(scripts), chunk)]

    def job(idx):
        d = ctx.sub("drive")
        sp = os.path.join(d, "scripts.ndjson")
        with open(sp, "w") as fh:
            for i in idx:
                fh.write(json.dumps(scripts[i]) + "\n")
        skip = 0
        rounds = 0
        while skip < len(idx):
            rounds += 1
            tp = os.path.join(d, "trace-%d.ndjson" % rounds)
            rc, out, err, wall = ctx.run([binpath, sp, tp, str(skip)] + (args or []), timeout=timeout, env=env)
            evs = read_ndjson(tp)
            byh = {}
            for e in evs:
                byh.setdefault(e.get("h", -1), []).append(e)
            if rc == 0:
                for k in range(skip, len(idx)):
                    results[idx[k]] = {"events": byh.get(k, []), "crashed": None}
                break
            # died: everything before the last started script is complete
            last = max([h for h in byh if h >= skip], default=skip)
            for k in range(skip, last):
                results[idx[k]] = {"events": byh.get(k, []), "crashed": None}
            why = "driver timeout" if rc == -999 else "driver died rc=%d" % rc
            tail = "\n".join((err or out or "").splitlines()[:12])
            results[idx[last]] = {"events": byh.get(last, []), "crashed": why + ": " + tail}
            skip = last + 1
        return None

    ctx.pmap(job, jobs, par=par)
    return results


def validate(ctx, module, cfg, hists, chunks=None, timeout=900, max_reject=40, files=None):
    """Validate recorded histories with TLC against spec/<module>.tla (trace spec convention:
    reads trace.ndjson, one state per consumed line, POSTCONDITION Accepted on the diameter).

    hists: list of event lists (each begins with its own reset/new event).
    Returns (n_accepted, rejections, unexamined) with rejections = [(hist_index, event_index, event)].
    A rejected history is removed and the remainder is validated again, so one rejection does not
    hide the others (up to max_reject per chunk).
    """
    n = len(hists)
    if n == 0:
        return 0, [], 0
    k = chunks or max(1, min(NCPU, (sum(len(h) for h in hists) + 3999) // 4000))
    parts = [list(range(i, n, k)) for i in range(k)]
    parts = [p for p in parts if p]
    rej_all = []
    unexamined = [0]
    accepted = [0]

    def job(idx):
        idx = list(idx)
        rejected = 0
        while idx:
            lines = []
            owner = []
            for k, i in enumerate(idx):
                for j, e in enumerate(hists[i]):
                    lines.append(json.dumps(e))
                    owner.append((k, j))
            fs = {"trace.ndjson": "\n".join(lines) + "\n"}
            fs.update(files or {})
            r = ctx.tlc(module, cfg=cfg, workers=1, timeout=timeout, files=fs, want_ok=False, count=False)
            if r.ok:
                accepted[0] += len(idx)
                return
            if "Accepted" not in r.out or "is false" not in r.out:
                tail = "\n".join(r.out.splitlines()[-30:])
                raise Inconclusive("trace validation with %s failed to run:\n%s" % (module, tail))
            pos = r.depth   # states = consumed events + 1  => failing event index (1-based) = depth
            if pos < 1 or pos > len(owner):
                raise Inconclusive("cannot locate the rejected event (depth %d of %d)" % (pos, len(owner)))
            k, ej = owner[pos - 1]
            hi = idx[k]
            rej_all.append((hi, ej, hists[hi][ej]))
            # everything before the rejected history was accepted; continue behind it
            accepted[0] += k
            idx = idx[k + 1:]
            rejected += 1
            if rejected >= max_reject:
                unexamined[0] += len(idx)
                return

    ctx.pmap(job, parts)
    return accepted[0], sorted(rej_all, key=lambda x: x[0]), unexamined[0]


def validate_stateless(ctx, module, cfg, events, chunks=None, timeout=1200):
    """Stateless trace validation: the trace spec evaluates `Good` on every event and prints
    <<"@@", ToJson([bad |-> set of rejected indices, n |-> Len(Trace)])>>.  Returns the rejected events."""
    n = len(events)
    if n == 0:
        return []
    k = chunks or max(1, min(NCPU, (n + 3999) // 4000))
    parts = [list(range(i, n, k)) for i in range(k)]
    parts = [p for p in parts if p]
    bad = []

    def job(idx):
        fs = {"trace.ndjson": "\n".join(json.dumps(events[i]) for i in idx) + "\n"}
        r = ctx.tlc(module, cfg=cfg, workers=1, timeout=timeout, files=fs, want_ok=False, count=False)
        em = r.emitted()
        if not em or em[0].get("n") != len(idx):
            tail = "\n".join(r.out.splitlines()[-30:])
            raise Inconclusive("stateless validation with %s failed to run:\n%s" % (module, tail))
        b = em[0]["bad"]
        if bool(b) == r.ok:
            raise Inconclusive("inconsistent TLC verdict in %s" % module)
        for j in b:
            bad.append(idx[j - 1])

    ctx.pmap(job, parts)
    return [events[i] for i in sorted(bad)]
